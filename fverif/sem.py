"""Shared oracle for behavioural checks: compile, execute, compare with the reference
semantics, classify failures by stage (physical vs logical execution, DESIGN.md 2.8.1)."""
from __future__ import annotations

import random

from . import driver, fsim, lang, protos, wiring

K1 = "K1-transitive-network-merge"


def input_types(prog):
    return {s[1]: s[2] for s in prog if s[0] == "input"}


def compile_prog(prog, case, files=None):
    style = case.get("style") or {}
    rng = random.Random(case.get("pseed", 0))
    src, lines = lang.to_source(prog, rng, style)
    b = driver.compile_source(
        src,
        optimize=case.get("optimize", True),
        poles=case.get("poles"),
        schedule=tuple(case.get("schedule") or ("first", case.get("sseed", 0))),
        retries=case.get("retries", 3),
        source_name=case.get("source_name", "<string>"),
    )
    return src, lines, b


class Exec:
    """One compiled program, executable physically and logically."""

    def __init__(self, build, prog):
        self.build = build
        self.prog = prog
        self.view = driver.View(build.bp)
        self.types = input_types(prog) if prog is not None else {}
        self._phys = None
        self._log = None
        self.user_index = None

    def sim(self, which="phys", mixed="and_precedence"):
        if which == "phys":
            return fsim.Sim(self.build.bp, mixed)
        return fsim.LogicalSim(self.build.bp, self.build.cap, mixed)

    def entity_at(self, proto, x, y):
        if self.user_index is None:
            self.user_index = {}
            for e in self.view.bp.get("entities", []):
                w, h = protos.tile_size(e["name"])
                d = e.get("direction", 0) or 0
                if d in (4, 12):
                    w, h = h, w
                tx = e["position"]["x"] - w / 2.0
                ty = e["position"]["y"] - h / 2.0
                self.user_index.setdefault((e["name"], round(tx, 3), round(ty, 3)), []).append(e["entity_number"])
        return self.user_index.get((proto, float(x), float(y)), [])

    def observe(self, sim, values, chest=None, ticks=None):
        """Apply inputs, settle (or run ticks), return observation dict."""
        missing = driver.set_inputs(sim, self.view, values, self.types)
        if chest:
            for (proto, x, y), contents in chest.items():
                for n in self.entity_at(proto, x, y):
                    sim.set_constant(n, contents)
        if ticks is None:
            settled = sim.settle()
        else:
            sim.run(ticks)
            settled = ticks
        obs = {"settled": settled, "missing_inputs": missing, "out": {}, "const": {}}
        for name, lst in self.view.anchors.items():
            if len(lst) != 1:
                obs["out"][name] = {"dup": len(lst)}
                continue
            n, rep = lst[0]
            obs["out"][name] = {"signals": dict(sim.signals_at(n)), "reported": rep}
        for name, lst in self.view.consts.items():
            if len(lst) != 1:
                continue
            n, _v, _inp, rep = lst[0]
            obs["const"][name] = {"signals": dict(sim.emitted(n)), "reported": rep}
        return obs


def expected_of(it: lang.Interp, overridden=()):
    """Reference observations of an interpreted program: top-level names."""
    exp = {}
    for name, v in it.top.items():
        if v.kind == "sig":
            exp[name] = ("sig", v.type, v.value)
        elif v.kind == "bun":
            exp[name] = ("bun", None, dict(v.members))
    return exp


def compare_outputs(exp, obs, skip=(), bundles_exact=True):
    """Compare reference values with observed anchor/const signals.

    Returns (mismatches, compared) where compared counts observations actually checked."""
    mm = []
    compared = 0
    nonzero = 0
    if obs.get("settled") is None:
        mm.append({"name": "*", "what": "circuit did not settle"})
    for name, e in exp.items():
        if name in skip:
            continue
        where = None
        if name in obs["out"]:
            where = obs["out"][name]
        elif name in obs["const"]:
            where = obs["const"][name]
        if where is None:
            continue
        if "dup" in where:
            mm.append({"name": name, "what": "duplicate anchors", "n": where["dup"]})
            continue
        sigs = where["signals"]
        kind, t, v = e
        if kind == "sig":
            key = t if t is not None else where.get("reported")
            if key is None:
                if v == 0 and not sigs:
                    compared += 1
                    continue
                if len(sigs) == 1:
                    got = next(iter(sigs.values()))
                else:
                    continue
            else:
                if key in fsim.WILD:
                    mm.append({"name": name, "what": "wildcard as result signal", "signal": key})
                    continue
                got = sigs.get(key, 0)
            compared += 1
            if v != 0:
                nonzero += 1
            if got != v:
                mm.append({"name": name, "what": "value", "signal": key, "expected": v, "got": got,
                           "network": dict(list(sigs.items())[:8])})
        else:
            compared += 1
            if v:
                nonzero += 1
            if bundles_exact:
                if sigs != v:
                    mm.append({"name": name, "what": "bundle", "expected": v, "got": dict(sigs)})
            else:
                for s_, c in v.items():
                    if sigs.get(s_, 0) != c:
                        mm.append({"name": name, "what": "bundle member", "signal": s_, "expected": c,
                                   "got": sigs.get(s_, 0)})
    return mm, compared, nonzero


def compare_entities(ex: Exec, sim, it: lang.Interp):
    """Entity enable conditions vs reference truth (C06)."""
    mm = []
    compared = 0
    for ent in it.entities:
        if ent["x"] is None:
            continue
        en = it.enables.get(ent["id"])
        if en is None:
            continue
        val, raw = en
        if val.kind == "int":
            continue
        found = ex.entity_at(ent["proto"], ent["x"], ent["y"])
        if len(found) != 1:
            mm.append({"name": ent["name"], "what": "entity not found exactly once", "n": len(found)})
            continue
        n = found[0]
        controlled, truth = sim.circuit_condition(n)
        compared += 1
        want = val.value > 0
        if not controlled:
            mm.append({"name": ent["name"], "what": "entity not circuit controlled"})
        elif bool(truth) != want:
            cond = sim.ents[n].get("control_behavior", {}).get("circuit_condition")
            mm.append({"name": ent["name"], "what": "enable", "expected": want, "got": bool(truth),
                       "condition": cond, "network": dict(list(sim.signals_at(n).items())[:8]),
                       "ref_value": val.value})
        else:
            # signal-level cross check: where the condition names the reference signal and
            # compares with >0, its value on the wire must equal the reference value
            cond = sim.ents[n].get("control_behavior", {}).get("circuit_condition") or {}
            fs = (cond.get("first_signal") or {}).get("name")
            if (fs and fs not in fsim.WILD and cond.get("comparator") == ">" and cond.get("constant", 0) == 0
                    and cond.get("second_signal") is None and val.type is not None and fs == val.type):
                got = sim.signals_at(n).get(fs, 0)
                if got != val.value:
                    mm.append({"name": ent["name"], "what": "enable signal value", "signal": fs,
                               "expected": val.value, "got": got})
    return mm, compared


def stage_of_failure(ex: Exec, replay_fn):
    """Classify a physical failure.  replay_fn(sim) -> mismatches for the failing case.

    Returns (stage, detail): 'upstream' | K1 | 'wiring'."""
    try:
        lsim = ex.sim("log")
        lmm = replay_fn(lsim)
    except Exception as exn:  # noqa: BLE001
        return "upstream", {"logical_error": repr(exn)}
    if lmm:
        return "upstream", {"logical_mismatches": lmm[:3]}
    phys = wiring.physical_partition(ex.build.bp)
    plan = wiring.planned_partition(ex.build.bp, ex.build.cap)
    if phys == plan:
        return K1, {}
    return "wiring", {"partition_diff": wiring.partition_diff(phys, plan)}


def mixed_rows_flip(ex: Exec, replay_fn):
    """True when the verdict depends on the reading of mixed AND/OR decider rows."""
    if not any(fsim.Sim.has_mixed_rows(e) for e in ex.view.bp.get("entities", []) if e["name"] == "decider-combinator"):
        return False
    sim = ex.sim("phys", "left_to_right")
    return not replay_fn(sim)


# ------------------------------------------------------------------ generic stateless case

def evaluate_stateless(prog, case, vals, chests=None, files=None):
    """Compile and run all valuations.  chests: list (aligned with vals) of
    {(proto,x,y): contents} or None."""
    from . import gen  # noqa: F401

    src, lines, b = compile_prog(prog, case)
    if not b.ok:
        return {"compiled": False, "error": b.error, "src": src, "build": b}
    ex = Exec(b, prog)
    sim = ex.sim("phys")
    fails = []
    compared = nonzero = skipped = 0
    sample_obs = None
    for idx, val in enumerate(vals):
        chest = chests[idx] if chests else None
        chest_by_name = case.get("chest_names")
        try:
            it = lang.Interp(prog, val, chest=_chest_for_interp(prog, chest), files=files).run()
        except lang.Unspec:
            skipped += 1
            continue
        exp = expected_of(it)
        for n_ in sim._comb:
            sim.out[n_] = {}
        obs = ex.observe(sim, val, chest=chest)
        if obs["missing_inputs"]:
            return {"compiled": True, "ex": ex, "src": src, "fails": [], "compared": 0, "nonzero": 0,
                    "skipped": skipped, "sample": None, "build": b,
                    "undrivable": "declared input(s) %s not found by their label" % obs["missing_inputs"]}
        mm, c, nz = compare_outputs(exp, obs, skip=set(val))
        if case.get("entities", True) and it.enables:
            mm2, c2 = compare_entities(ex, sim, it)
            mm += mm2
            c += c2
            nz += c2
        compared += c
        nonzero += nz
        if sample_obs is None and nz:
            sample_obs = {"inputs": val, "observed": {k: v.get("signals") for k, v in obs["out"].items()},
                          "expected": {k: [e[1], e[2]] for k, e in exp.items() if k in obs["out"]}}
            if chest:
                sample_obs["chests"] = {str(k): v for k, v in chest.items()}
        if mm:
            fails.append((val, mm, exp, chest))
            if len(fails) >= 3:
                break
    return {"compiled": True, "ex": ex, "src": src, "fails": fails, "compared": compared, "nonzero": nonzero,
            "skipped": skipped, "sample": sample_obs, "build": b}


def _chest_for_interp(prog, chest):
    return chest or None


def run_stateless_case(case, attribute=None, chests_fn=None, files=None):
    import random as _r

    from . import gen

    prog = case["prog"]
    rng = _r.Random(case["vseed"])
    vals = gen.valuations(prog, case["nval"], rng, small=case.get("small", False), edges=case.get("edges"))
    chests = chests_fn(case, vals, rng) if chests_fn else None
    r = evaluate_stateless(prog, case, vals, chests=chests, files=files)
    shape = lang.shape_of(prog)
    base = {"shape": shape, "stratum": case["stratum"], "evaluations": len(vals)}
    if not r["compiled"]:
        return dict(base, verdict="vacuous", why="rejected: " + str(r["error"])[:300], src=r["src"])
    base["monitors"] = {"plan": 1 if r["build"].cap else 0, "solver": len(r["build"].solves)}
    if r.get("undrivable"):
        return dict(base, verdict="inconclusive", why=r["undrivable"], src=r["src"])
    if r["compared"] == 0:
        return dict(base, verdict="inconclusive", why="nothing observable (no anchors matched)", src=r["src"])
    if not r["fails"]:
        return dict(base, verdict="held", nontrivial=r["nonzero"] > 0,
                    sample={"source": r["src"], "stratum": case["stratum"], "valuations": len(vals),
                            "example": r["sample"]})
    ex = r["ex"]
    val, mm, exp, chest = r["fails"][0]

    def replay(sim):
        obs = ex.observe(sim, val, chest=chest)
        out = compare_outputs(exp, obs, skip=set(val))[0]
        if case.get("entities", True):
            it = lang.Interp(prog, val, chest=_chest_for_interp(prog, chest), files=files).run()
            if it.enables:
                out += compare_entities(ex, sim, it)[0]
        return out

    stage, detail = stage_of_failure(ex, replay)
    witness = {"source": r["src"], "inputs": val, "mismatches": mm[:4], "stage": stage, "detail": detail}
    if chest:
        witness["chests"] = {str(k): v for k, v in chest.items()}
    res = dict(base, verdict="violated", nontrivial=True, witness=witness, why="%s: %s" % (stage, mm[0]))
    if stage == K1:
        res["finding"] = K1
    elif stage == "upstream":
        if mixed_rows_flip(ex, replay):
            return dict(base, verdict="inconclusive", why="verdict depends on the reading of mixed AND/OR rows",
                        witness=witness)
        if attribute is not None:
            fid = attribute(prog, case, vals, res, ex, replay)
            if fid:
                res["finding"] = fid
    return res
