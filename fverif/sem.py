"""Shared oracle for behavioural checks: compile, execute, compare with the reference
semantics, classify failures by stage (physical vs logical execution, DESIGN.md 2.8.1)."""
from __future__ import annotations

import random

from . import driver, fsim, lang, protos, wiring

K1 = "K1-transitive-network-merge"


def input_types(prog):
    return {s[1]: s[2] for s in prog if s[0] == "input"}


def compile_prog(prog, case, files=None):
    style = case.get("style") or {}
    rng = random.Random(case.get("pseed", 0))
    src, lines = lang.to_source(prog, rng, style)
    b = driver.compile_source(
        src,
        optimize=case.get("optimize", True),
        poles=case.get("poles"),
        schedule=tuple(case.get("schedule") or ("first", case.get("sseed", 0))),
        retries=case.get("retries", 3),
        source_name=case.get("source_name", "<string>"),
    )
    return src, lines, b


class Exec:
    """One compiled program, executable physically and logically."""

    def __init__(self, build, prog):
        self.build = build
        self.prog = prog
        self.view = driver.View(build.bp)
        self.types = input_types(prog) if prog is not None else {}
        self._phys = None
        self._log = None
        self.user_index = None

    def sim(self, which="phys", mixed="and_precedence"):
        if which == "phys":
            return fsim.Sim(self.build.bp, mixed)
        return fsim.LogicalSim(self.build.bp, self.build.cap, mixed)

    def entity_at(self, proto, x, y):
        if self.user_index is None:
            self.user_index = {}
            for e in self.view.bp.get("entities", []):
                w, h = protos.tile_size(e["name"])
                d = e.get("direction", 0) or 0
                if d in (4, 12):
                    w, h = h, w
                tx = e["position"]["x"] - w / 2.0
                ty = e["position"]["y"] - h / 2.0
                self.user_index.setdefault((e["name"], round(tx, 3), round(ty, 3)), []).append(e["entity_number"])
        return self.user_index.get((proto, float(x), float(y)), [])

    def observe(self, sim, values, chest=None, ticks=None):
        """Apply inputs, settle (or run ticks), return observation dict."""
        missing = driver.set_inputs(sim, self.view, values, self.types)
        if chest:
            for (proto, x, y), contents in chest.items():
                for n in self.entity_at(proto, x, y):
                    sim.set_constant(n, contents)
        if ticks is None:
            settled = sim.settle()
        else:
            sim.run(ticks)
            settled = ticks
        obs = {"settled": settled, "missing_inputs": missing, "out": {}, "const": {}}
        for name, lst in self.view.anchors.items():
            if len(lst) != 1:
                obs["out"][name] = {"dup": len(lst)}
                continue
            n, rep = lst[0]
            obs["out"][name] = {"signals": dict(sim.signals_at(n)), "reported": rep}
        for name, lst in self.view.consts.items():
            if len(lst) != 1:
                continue
            n, _v, _inp, rep = lst[0]
            obs["const"][name] = {"signals": dict(sim.emitted(n)), "reported": rep}
        return obs


def expected_of(it: lang.Interp, overridden=()):
    """Reference observations of an interpreted program: top-level names."""
    exp = {}
    for name, v in it.top.items():
        if v.kind == "sig":
            exp[name] = ("sig", v.type, v.value)
        elif v.kind == "bun":
            exp[name] = ("bun", None, dict(v.members))
    return exp


def compare_outputs(exp, obs, skip=(), bundles_exact=True):
    """Compare reference values with observed anchor/const signals.

    Returns (mismatches, compared) where compared counts observations actually checked."""
    mm = []
    compared = 0
    nonzero = 0
    if obs.get("settled") is None:
        mm.append({"name": "*", "what": "circuit did not settle"})
    for name, e in exp.items():
        if name in skip:
            continue
        where = None
        if name in obs["out"]:
            where = obs["out"][name]
        elif name in obs["const"]:
            where = obs["const"][name]
        if where is None:
            continue
        if "dup" in where:
            mm.append({"name": name, "what": "duplicate anchors", "n": where["dup"]})
            continue
        sigs = where["signals"]
        kind, t, v = e
        if kind == "sig":
            key = t if t is not None else where.get("reported")
            if key is None:
                if v == 0 and not sigs:
                    compared += 1
                    continue
                if len(sigs) == 1:
                    got = next(iter(sigs.values()))
                else:
                    continue
            else:
                if key in fsim.WILD:
                    mm.append({"name": name, "what": "wildcard as result signal", "signal": key})
                    continue
                got = sigs.get(key, 0)
            compared += 1
            if v != 0:
                nonzero += 1
            if got != v:
                mm.append({"name": name, "what": "value", "signal": key, "expected": v, "got": got,
                           "network": dict(list(sigs.items())[:8])})
        else:
            compared += 1
            if v:
                nonzero += 1
            if bundles_exact:
                if sigs != v:
                    mm.append({"name": name, "what": "bundle", "expected": v, "got": dict(sigs)})
            else:
                for s_, c in v.items():
                    if sigs.get(s_, 0) != c:
                        mm.append({"name": name, "what": "bundle member", "signal": s_, "expected": c,
                                   "got": sigs.get(s_, 0)})
    return mm, compared, nonzero


def compare_entities(ex: Exec, sim, it: lang.Interp):
    """Entity enable conditions vs reference truth (C06)."""
    mm = []
    compared = 0
    for ent in it.entities:
        if ent["x"] is None:
            continue
        en = it.enables.get(ent["id"])
        if en is None:
            continue
        val, raw = en
        if val.kind == "int":
            continue
        found = ex.entity_at(ent["proto"], ent["x"], ent["y"])
        if len(found) != 1:
            mm.append({"name": ent["name"], "what": "entity not found exactly once", "n": len(found)})
            continue
        n = found[0]
        controlled, truth = sim.circuit_condition(n)
        compared += 1
        want = val.value > 0
        if not controlled:
            mm.append({"name": ent["name"], "what": "entity not circuit controlled"})
        elif bool(truth) != want:
            cond = sim.ents[n].get("control_behavior", {}).get("circuit_condition")
            mm.append({"name": ent["name"], "what": "enable", "expected": want, "got": bool(truth),
                       "condition": cond, "network": dict(list(sim.signals_at(n).items())[:8]),
                       "ref_value": val.value})
        else:
            # signal-level cross check: where the condition names the reference signal and
            # compares with >0, its value on the wire must equal the reference value
            cond = sim.ents[n].get("control_behavior", {}).get("circuit_condition") or {}
            fs = (cond.get("first_signal") or {}).get("name")
            if (fs and fs not in fsim.WILD and cond.get("comparator") == ">" and cond.get("constant", 0) == 0
                    and cond.get("second_signal") is None and val.type is not None and fs == val.type
                    and not val.cmp and raw[0] not in ("c", "any", "all")):
                got = sim.signals_at(n).get(fs, 0)
                if got != val.value:
                    mm.append({"name": ent["name"], "what": "enable signal value", "signal": fs,
                               "expected": val.value, "got": got})
    return mm, compared


def stage_of_failure(ex: Exec, replay_fn):
    """Classify a physical failure.  replay_fn(sim) -> mismatches for the failing case.

    Returns (stage, detail): 'upstream' | K1 | 'wiring'."""
    try:
        lsim = ex.sim("log")
        lmm = replay_fn(lsim)
    except Exception as exn:  # noqa: BLE001
        return "upstream", {"logical_error": repr(exn)}
    if lmm:
        return "upstream", {"logical_mismatches": lmm[:3]}
    phys = wiring.physical_partition(ex.build.bp)
    plan = wiring.planned_partition(ex.build.bp, ex.build.cap)
    if phys == plan:
        return K1, {}
    return "wiring", {"partition_diff": wiring.partition_diff(phys, plan)}


def mixed_rows_flip(ex: Exec, replay_fn):
    """True when the verdict depends on the reading of mixed AND/OR decider rows."""
    if not any(fsim.Sim.has_mixed_rows(e) for e in ex.view.bp.get("entities", []) if e["name"] == "decider-combinator"):
        return False
    sim = ex.sim("phys", "left_to_right")
    return not replay_fn(sim)


# ------------------------------------------------------------------ generic stateless case

def evaluate_stateless(prog, case, vals, chests=None, files=None):
    """Compile and run all valuations.  chests: list (aligned with vals) of
    {(proto,x,y): contents} or None."""
    from . import gen  # noqa: F401

    src, lines, b = compile_prog(prog, case)
    if not b.ok:
        return {"compiled": False, "error": b.error, "src": src, "build": b}
    ex = Exec(b, prog)
    sim = ex.sim("phys")
    fails = []
    compared = nonzero = skipped = 0
    sample_obs = None
    for idx, val in enumerate(vals):
        chest = chests[idx] if chests else None
        chest_by_name = case.get("chest_names")
        try:
            it = lang.Interp(prog, val, chest=_chest_for_interp(prog, chest), files=files).run()
        except lang.Unspec:
            skipped += 1
            continue
        exp = expected_of(it)
        for n_ in sim._comb:
            sim.out[n_] = {}
        obs = ex.observe(sim, val, chest=chest)
        if obs["missing_inputs"]:
            return {"compiled": True, "ex": ex, "src": src, "fails": [], "compared": 0, "nonzero": 0,
                    "skipped": skipped, "sample": None, "build": b,
                    "undrivable": "declared input(s) %s not found by their label" % obs["missing_inputs"]}
        mm, c, nz = compare_outputs(exp, obs, skip=set(val))
        if case.get("entities", True) and it.enables:
            mm2, c2 = compare_entities(ex, sim, it)
            mm += mm2
            c += c2
            nz += c2
        compared += c
        nonzero += nz
        if sample_obs is None and nz:
            sample_obs = {"inputs": val, "observed": {k: v.get("signals") for k, v in obs["out"].items()},
                          "expected": {k: [e[1], e[2]] for k, e in exp.items() if k in obs["out"]}}
            if chest:
                sample_obs["chests"] = {str(k): v for k, v in chest.items()}
        if mm:
            fails.append((val, mm, exp, chest))
            if len(fails) >= 3:
                break
    return {"compiled": True, "ex": ex, "src": src, "fails": fails, "compared": compared, "nonzero": nonzero,
            "skipped": skipped, "sample": sample_obs, "build": b}


def _chest_for_interp(prog, chest):
    return chest or None


def run_stateless_case(case, attribute=None, chests_fn=None, files=None):
    import random as _r

    from . import gen

    prog = case["prog"]
    rng = _r.Random(case["vseed"])
    vals = gen.valuations(prog, case["nval"], rng, small=case.get("small", False), edges=case.get("edges"))
    chests = chests_fn(case, vals, rng) if chests_fn else None
    r = evaluate_stateless(prog, case, vals, chests=chests, files=files)
    shape = lang.shape_of(prog)
    base = {"shape": shape, "stratum": case["stratum"], "evaluations": len(vals)}
    if not r["compiled"]:
        return dict(base, verdict="vacuous", why="rejected: " + str(r["error"])[:300], src=r["src"])
    base["monitors"] = {"plan": 1 if r["build"].cap else 0, "solver": len(r["build"].solves)}
    if r.get("undrivable"):
        return dict(base, verdict="inconclusive", why=r["undrivable"], src=r["src"])
    if r["compared"] == 0:
        return dict(base, verdict="inconclusive", why="nothing observable (no anchors matched)", src=r["src"])
    if not r["fails"]:
        return dict(base, verdict="held", nontrivial=r["nonzero"] > 0,
                    sample={"source": r["src"], "stratum": case["stratum"], "valuations": len(vals),
                            "example": r["sample"]})
    ex = r["ex"]
    val, mm, exp, chest = r["fails"][0]

    def replay(sim):
        obs = ex.observe(sim, val, chest=chest)
        out = compare_outputs(exp, obs, skip=set(val))[0]
        if case.get("entities", True):
            it = lang.Interp(prog, val, chest=_chest_for_interp(prog, chest), files=files).run()
            if it.enables:
                out += compare_entities(ex, sim, it)[0]
        return out

    stage, detail = stage_of_failure(ex, replay)
    witness = {"source": r["src"], "inputs": val, "mismatches": mm[:4], "stage": stage, "detail": detail}
    if chest:
        witness["chests"] = {str(k): v for k, v in chest.items()}
    res = dict(base, verdict="violated", nontrivial=True, witness=witness, why="%s: %s" % (stage, mm[0]))
    if stage == K1:
        res["finding"] = K1
    elif stage == "upstream":
        if mixed_rows_flip(ex, replay):
            return dict(base, verdict="inconclusive", why="verdict depends on the reading of mixed AND/OR rows",
                        witness=witness)
        if attribute is not None:
            fid = attribute(prog, case, vals, res, ex, replay)
            if fid:
                res["finding"] = fid
    return res


# ------------------------------------------------------------------ twin comparison

def observe_all(ex: Exec, sim, values, chest=None, it=None):
    """Observation record used by twin oracles: anchors, named constants, entity conditions."""
    for n_ in sim._comb:
        sim.out[n_] = {}
    obs = ex.observe(sim, values, chest=chest)
    ents = {}
    for e in ex.view.user:
        cb = e.get("control_behavior") or {}
        if "circuit_condition" in cb or cb.get("circuit_enabled"):
            w, h = protos.tile_size(e["name"])
            key = "%s@%s,%s" % (e["name"], e["position"]["x"] - w / 2.0, e["position"]["y"] - h / 2.0)
            ents[key] = list(sim.circuit_condition(e["entity_number"]))
    obs["ent"] = ents
    places = []
    for e in ex.view.user:
        w, h = protos.tile_size(e["name"])
        d = e.get("direction", 0) or 0
        if d in (4, 12):
            w, h = h, w
        places.append("%s@%s,%s" % (e["name"], e["position"]["x"] - w / 2.0, e["position"]["y"] - h / 2.0))
    obs["places"] = sorted(places)
    return obs


def diff_observations(a, b, names=None, rename=None, strict=False):
    """Differences between two observation records (twin oracle).

    Anchors/constants are compared by name; maps must be equal, except that two
    single-signal maps with equal values are accepted (compiler-chosen names may differ).
    rename: optional dict mapping names of `a` to names of `b`."""
    out = []
    if (a.get("settled") is None) != (b.get("settled") is None):
        out.append({"what": "one build settles, the other does not", "a": a.get("settled"), "b": b.get("settled")})
    for kind in ("out", "const"):
        for name, ea in a[kind].items():
            nb = (rename or {}).get(name, name)
            if names is not None and name not in names:
                continue
            eb = b[kind].get(nb)
            if eb is None:
                # a name may be an anchor in one build and a named constant in the other
                eb = b["const" if kind == "out" else "out"].get(nb)
            if eb is None:
                if strict is True:
                    out.append({"name": name, "what": "named result observable in the first build only", "a": ea})
                continue
            sa, sb = ea.get("signals"), eb.get("signals")
            if sa is None or sb is None:
                if ea != eb:
                    out.append({"name": name, "what": "anchor multiplicity", "a": ea, "b": eb})
                continue
            if sa == sb:
                continue
            if len(sa) <= 1 and len(sb) <= 1 and list(sa.values()) == list(sb.values()):
                continue
            out.append({"name": name, "what": "signals differ", "a": sa, "b": sb})
    if strict:
        inv = {v: k for k, v in (rename or {}).items()}
        have = set(a["out"]) | set(a["const"])
        for kind in ("out", "const"):
            for name, eb in b[kind].items():
                if inv.get(name, name) not in have and (names is None or name in names):
                    out.append({"name": name, "what": "named result observable in the second build only", "b": eb})
    for key, ta in a.get("ent", {}).items():
        tb = b.get("ent", {}).get(key)
        if tb is None:
            out.append({"entity": key, "what": "entity missing in second build"})
        elif ta != tb:
            out.append({"entity": key, "what": "entity condition differs", "a": ta, "b": tb})
    for key in b.get("ent", {}):
        if key not in a.get("ent", {}):
            out.append({"entity": key, "what": "entity missing in first build"})
    if "places" in a and "places" in b and a["places"] != b["places"]:
        sa, sb = list(a["places"]), list(b["places"])
        only_a = [x for x in sa if x not in sb or sa.count(x) > sb.count(x)]
        only_b = [x for x in sb if x not in sa or sb.count(x) > sa.count(x)]
        out.append({"what": "user-placed entities differ", "only_a": only_a[:6], "only_b": only_b[:6]})
    return out


def common_observed(a, b):
    n = 0
    for kind in ("out", "const"):
        n += len(set(a[kind]) & (set(b["out"]) | set(b["const"])))
    n += len(set(a.get("ent", {})) & set(b.get("ent", {})))
    n += len(set(a.get("places", [])) & set(b.get("places", [])))
    return n


def run_twin_case(case, prog_a, opts_a, prog_b, opts_b, vals=None, chests=None, rename=None,
                  label_a="A", label_b="B", reference=True, files=None, vals_b=None, strict_names=False):
    """Differential oracle: two builds must be observationally equal for every valuation;
    build A is additionally compared with the reference semantics (a common error is not missed)."""
    import random as _r

    from . import gen

    rng = _r.Random(case["vseed"])
    if vals is None:
        vals = gen.valuations(prog_a, case["nval"], rng, small=case.get("small", False), edges=case.get("edges"))
    if vals_b is None:
        vals_b = vals
    ca = dict(case, **opts_a)
    cb = dict(case, **opts_b)
    src_a, _la, ba = compile_prog(prog_a, ca)
    src_b, _lb, bb = compile_prog(prog_b, cb)
    shape = lang.shape_of(prog_a)
    base = {"shape": shape, "stratum": case["stratum"], "evaluations": 2 * len(vals)}
    if not ba.ok or not bb.ok:
        if ba.ok != bb.ok:
            return dict(base, verdict="violated", nontrivial=True,
                        why="only one of the two builds is accepted: %s=%s %s=%s" % (
                            label_a, ba.error or "ok", label_b, bb.error or "ok"),
                        witness={"source_a": src_a, "source_b": src_b, "error_a": ba.error, "error_b": bb.error})
        return dict(base, verdict="vacuous", why="both rejected: " + str(ba.error)[:200], src=src_a)
    exa, exb = Exec(ba, prog_a), Exec(bb, prog_b)
    sa, sb = exa.sim("phys"), exb.sim("phys")
    compared = 0
    nonzero = 0
    sample = None
    fail = None
    for idx, (va, vb) in enumerate(zip(vals, vals_b)):
        chest = chests[idx] if chests else None
        oa = observe_all(exa, sa, va, chest)
        ob = observe_all(exb, sb, vb, chest)
        if oa["missing_inputs"] or ob["missing_inputs"]:
            return dict(base, verdict="inconclusive", src=src_a,
                        why="declared input(s) not found by their label: %s %s" % (oa["missing_inputs"], ob["missing_inputs"]))
        d = diff_observations(oa, ob, rename=rename, strict=strict_names)
        compared += common_observed(oa, ob)
        if any(v.get("signals") for v in oa["out"].values()):
            nonzero += 1
        if d:
            fail = (idx, va, vb, chest, d, "twin")
            break
        if reference:
            try:
                it = lang.Interp(prog_a, va, chest=chest, files=files).run()
            except lang.Unspec:
                continue
            exp = expected_of(it)
            mm, c, nz = compare_outputs(exp, oa, skip=set(va) | set(case.get("skip_names") or ()))
            if it.enables:
                mm2, c2 = compare_entities(exa, sa, it)
                mm += mm2
            if mm:
                fail = (idx, va, vb, chest, mm, "reference")
                break
        if sample is None and nonzero:
            sample = {"source_a": src_a, "source_b": src_b if src_b != src_a else "(same source)",
                      "inputs": va, "observed_a": {k: v.get("signals") for k, v in oa["out"].items()}}
    if fail is None:
        if compared == 0:
            return dict(base, verdict="inconclusive", why="nothing observable in common", src=src_a)
        return dict(base, verdict="held", nontrivial=nonzero > 0, sample=sample or {"source_a": src_a},
                    monitors={"plan": 2, "solver": len(ba.solves) + len(bb.solves)})
    idx, va, vb, chest, d, kind = fail
    # stage: replay on the logical executions
    try:
        la, lb = exa.sim("log"), exb.sim("log")
        loa = observe_all(exa, la, va, chest)
        lob = observe_all(exb, lb, vb, chest)
        if kind == "twin":
            ld = diff_observations(loa, lob, rename=rename, strict=strict_names)
        else:
            it = lang.Interp(prog_a, va, chest=chest, files=files).run()
            ld = compare_outputs(expected_of(it), loa, skip=set(va) | set(case.get("skip_names") or ()))[0]
            if it.enables:
                ld += compare_entities(exa, la, it)[0]
    except Exception as exn:  # noqa: BLE001
        ld = [{"logical_error": repr(exn)}]
    if ld:
        stage = "upstream"
    else:
        faithful = all(wiring.physical_partition(b.bp) == wiring.planned_partition(b.bp, b.cap) for b in (ba, bb))
        stage = K1 if faithful else "wiring"
    witness = {"source_a": src_a, "source_b": src_b, "label_a": label_a, "label_b": label_b, "inputs": va,
               "inputs_b": vb if vb != va else None, "oracle": kind, "differences": d[:4], "stage": stage}
    if chest:
        witness["chests"] = {str(k): v for k, v in chest.items()}
    res = dict(base, verdict="violated", nontrivial=True, witness=witness,
               why="%s/%s: %s" % (kind, stage, str(d[0])[:300]))
    if stage == K1:
        res["finding"] = K1
    res["_ctx"] = None
    return res


def run_twin_case_relative(case, prog_a, opts_a, prog_b, opts_b, **kw):
    """run_twin_case for properties that compare two builds with each other (optimised / unoptimised, loop /
    unrolled, call / inlined): build a is also run against the reference semantics, but a deviation that build b
    shares is not a difference between the two - it is recorded as `common_deviation` and left to the properties
    that fix the meaning of the program itself (C01 / C02 / C03 ...)."""
    res = run_twin_case(case, prog_a, opts_a, prog_b, opts_b, **kw)
    if kw.get("reference", True) and res.get("verdict") == "violated" and (res.get("witness") or {}).get("oracle") == "reference":
        note = "both builds deviate identically from the reference semantics: %s" % res.get("why", "")[:200]
        kw2 = dict(kw, reference=False)
        res2 = run_twin_case(case, prog_a, opts_a, prog_b, opts_b, **kw2)
        if res2.get("verdict") == "held":
            res2["common_deviation"] = note
            return res2
        return res2 if res2.get("verdict") == "violated" else res
    return res
