"""Subprocess helper for C19/C07: compile a source read from stdin in a fresh interpreter
(own PYTHONHASHSEED / cwd) and print the canonical circuit signature as JSON."""
from __future__ import annotations

import json
import sys


def main():
    args = json.loads(sys.argv[1])
    src = sys.stdin.read()
    from fverif import canon, driver

    b = driver.compile_source(src, optimize=args.get("optimize", True), poles=args.get("poles"),
                              schedule=tuple(args.get("schedule") or ("first", 0)), retries=args.get("retries", 3))
    if not b.ok:
        print("@@S " + json.dumps({"ok": False, "error": str(b.error)[:300]}))
        return
    sig = canon.signature(b.bp)
    print("@@S " + json.dumps({"ok": True, "sig": sig["sig"], "n_entities": sig["n_entities"], "n_networks": sig["n_networks"],
                               "entities": sig["entities"], "networks": sig["networks"],
                               "bp": b.bp if args.get("want_bp") else None}))


if __name__ == "__main__":
    main()
