"""Seeded, stratified generators of program descriptions (DESIGN.md 2.3)."""
from __future__ import annotations

import random

from .lang import ARITH_OPS, CMP_OPS

INT_MIN = -(1 << 31)
INT_MAX = (1 << 31) - 1

# explicit virtual names far from the head of the compiler's allocation pool
FAR_VIRT = [
    "signal-dot", "signal-check", "signal-deny", "signal-info", "signal-heart", "signal-skull",
    "signal-star", "signal-moon", "signal-sun", "signal-fire", "signal-lightning", "signal-snowflake",
    "signal-lock", "signal-unlock", "signal-speed", "signal-ghost", "signal-clock", "signal-hourglass",
    "signal-alarm", "signal-alert", "signal-fuel", "signal-liquid", "signal-mining", "signal-weapon",
    "signal-damage", "signal-recycle", "signal-map-marker", "signal-plus", "signal-minus",
    "signal-multiplication", "signal-division", "signal-equal", "signal-not-equal", "signal-less-than",
    "signal-greater-than", "signal-percent", "signal-comma", "signal-colon", "signal-slash",
    "signal-ampersand", "signal-number-sign", "signal-input", "signal-output", "signal-shuffle",
    "signal-explosion", "signal-white-flag", "signal-no-entry", "signal-trash-bin", "signal-science-pack",
    "signal-radioactivity", "signal-battery-full", "signal-battery-low", "signal-thermometer-red",
    "signal-thermometer-blue", "signal-stack-size", "signal-question-mark", "signal-exclamation-mark",
    "signal-apostrophe", "signal-quotation-mark", "signal-left-parenthesis", "signal-right-parenthesis",
]
NS_VIRT = ["shape-circle", "shape-cross", "shape-diagonal", "shape-horizontal", "shape-vertical",
           "up-arrow", "down-arrow", "left-arrow", "right-arrow", "shape-t", "shape-corner", "shape-curve"]
ITEMS = ["iron-plate", "copper-plate", "coal", "stone", "wood", "iron-ore", "copper-ore", "steel-plate",
         "iron-gear-wheel", "electronic-circuit", "advanced-circuit", "plastic-bar", "sulfur", "battery",
         "pipe", "stone-brick", "copper-cable", "iron-stick", "engine-unit", "processing-unit",
         "solid-fuel", "explosives", "uranium-ore", "low-density-structure", "rocket-fuel", "concrete",
         "landfill", "rail", "firearm-magazine", "grenade", "repair-pack", "raw-fish"]
FLUIDS = ["water", "crude-oil", "steam", "lubricant", "petroleum-gas", "heavy-oil", "light-oil", "sulfuric-acid"]
HEAD_VIRT = ["signal-A", "signal-B", "signal-C", "signal-D", "signal-E", "signal-F", "signal-0", "signal-1"]

BOUNDARY = [0, 1, -1, 2, -2, 3, -3, 5, 7, -7, 10, 31, 32, 33, 100, -100, 255, 256, -256, 1000, 65535, 65536,
            65537, -65536, 46340, 46341, -46341, 1 << 30, -(1 << 30), INT_MAX, INT_MIN, INT_MAX - 1, INT_MIN + 1]
SMALL = [0, 1, -1, 2, -2, 3, 4, 5, -5, 6, 7, 8, 9, 10, 12, 15, 16, 20, 31, 50, 64, 99, 100]


def rand_value(rng, small=False):
    r = rng.random()
    if small:
        if r < 0.6:
            return rng.choice(SMALL)
        return rng.randint(-200, 200)
    if r < 0.35:
        return rng.choice(BOUNDARY)
    if r < 0.6:
        return rng.randint(-50, 50)
    if r < 0.8:
        return rng.randint(-100000, 100000)
    return rng.randint(INT_MIN, INT_MAX)


class Types:
    """Per-program allocator of distinct explicit signal names."""

    def __init__(self, rng, pools=("far", "item", "fluid", "ns")):
        names = []
        if "far" in pools:
            names += FAR_VIRT
        if "item" in pools:
            names += ITEMS
        if "fluid" in pools:
            names += FLUIDS
        if "ns" in pools:
            names += NS_VIRT
        if "head" in pools:
            names += HEAD_VIRT
        self.names = list(names)
        rng.shuffle(self.names)
        self.i = 0

    def fresh(self):
        if self.i >= len(self.names):
            raise RuntimeError("type pool exhausted")
        t = self.names[self.i]
        self.i += 1
        return t


def valuations(prog, n, rng, small=False, edges=None):
    """n valuations of the declared inputs; boundary biased.  The first keeps the
    declared defaults."""
    ins = [s for s in prog if s[0] == "input"]
    out = [{s[1]: s[3] for s in ins}]
    for _ in range(max(0, n - 1)):
        v = {}
        for s in ins:
            if edges and s[1] in edges and rng.random() < 0.7:
                v[s[1]] = rng.choice(edges[s[1]])
            else:
                v[s[1]] = rand_value(rng, small)
        out.append(v)
    return out


# ------------------------------------------------------------------ scalar expressions

class ExprGen:
    """Random scalar expressions over a set of variables.

    vars: list of (name, kind) with kind 'sig' | 'int'."""

    def __init__(self, rng, types: Types | None, distinct=False, ops=None, cmps=None, allow=None):
        self.rng = rng
        self.types = types
        self.distinct = distinct
        self.ops = ops or ARITH_OPS
        self.cmps = cmps or CMP_OPS
        self.allow = allow or {"arith", "cmp", "logic", "not", "neg", "sel", "proj"}
        self.vars = []

    def leaf(self, want_sig=False, const_ok=True):
        rng = self.rng
        sigs = [v for v in self.vars if v[1] == "sig"]
        if (not want_sig) and const_ok and rng.random() < 0.25:
            ints = [v for v in self.vars if v[1] == "int"]
            if ints and rng.random() < 0.3:
                return ["v", rng.choice(ints)[0]], "int"
            return ["n", rand_value(rng, small=rng.random() < 0.7)], "int"
        if not sigs:
            return ["n", rand_value(rng, True)], "int"
        return ["v", rng.choice(sigs)[0]], "sig"

    def wrap(self, e):
        """Type-distinct mode: project an operator node onto its own signal."""
        if self.distinct and self.types is not None:
            return ["p", e, self.types.fresh()]
        return e

    def arith_node(self, depth):
        rng = self.rng
        op = rng.choice(self.ops)
        l, lk = self.expr(depth - 1)
        if op in ("<<", ">>"):
            r, rk = ["n", rng.randint(0, 31)], "int"
        elif op == "**":
            r, rk = ["n", rng.choice([0, 1, 2, 2, 3, 3, 4, 5, 7, 13, 31, 32])], "int"
        else:
            r, rk = self.expr(depth - 1)
        if lk == "int" and rk == "int":
            # keep compile-time folding out of C01's clean strata
            l, lk = self.leaf(want_sig=True)
            if lk == "int":
                return l, lk
        return self.wrap(["b", op, l, r]), "sig"

    def cmp_node(self, depth, literal_left_ok=False):
        rng = self.rng
        op = rng.choice(self.cmps)
        l, lk = self.expr(depth - 1)
        r, rk = self.expr(depth - 1)
        if lk == "int" and rk == "int":
            l, lk = self.leaf(want_sig=True)
            if lk == "int":
                return l, lk
        if lk == "int" and not literal_left_ok:
            # mirror so that an integer is never the left operand of a run-time comparison
            mirror = {"<": ">", ">": "<", "<=": ">=", ">=": "<=", "==": "==", "!=": "!="}
            l, r, lk, rk = r, l, rk, lk
            op = mirror[op]
        return self.wrap(["c", op, l, r]), "sig"

    def expr(self, depth):
        rng = self.rng
        if depth <= 0 or rng.random() < 0.25:
            return self.leaf()
        kinds = []
        if "arith" in self.allow:
            kinds += ["arith"] * 5
        if "cmp" in self.allow:
            kinds += ["cmp"] * 2
        if "logic" in self.allow:
            kinds += ["logic"]
        if "not" in self.allow:
            kinds += ["not"]
        if "neg" in self.allow:
            kinds += ["neg"]
        if "sel" in self.allow:
            kinds += ["sel"]
        k = rng.choice(kinds)
        if k == "arith":
            return self.arith_node(depth)
        if k == "cmp":
            return self.cmp_node(depth)
        if k == "logic":
            l, lk = self.expr(depth - 1)
            r, rk = self.expr(depth - 1)
            if lk == "int" and rk == "int":
                l, lk = self.leaf(want_sig=True)
                if lk == "int":
                    return l, lk
            return self.wrap([rng.choice(["&&", "||"]), l, r]), "sig"
        if k == "not":
            x, xk = self.expr(depth - 1)
            if xk == "int":
                x, xk = self.leaf(want_sig=True)
                if xk == "int":
                    return x, xk
            return self.wrap(["!", x]), "sig"
        if k == "neg":
            x, xk = self.expr(depth - 1)
            if xk == "int":
                x, xk = self.leaf(want_sig=True)
                if xk == "int":
                    return x, xk
            return self.wrap(["neg", x]), "sig"
        if k == "sel":
            c, ck = self.cmp_node(depth - 1)
            if ck == "int":
                return c, ck
            # strip the projection from the condition: `cond : value` wants a comparison
            if c[0] == "p":
                c = c[1]
            v, vk = self.leaf()
            return self.wrap(["s", c, v]), "sig"
        raise AssertionError(k)


def declare_inputs(rng, types: Types, n, typed_frac=1.0):
    stmts = []
    for i in range(n):
        t = types.fresh() if rng.random() < typed_frac else None
        stmts.append(["input", "i%d" % i, t, rand_value(rng, small=True)])
    return stmts


def dag_program(rng, n_in=3, n_stmt=5, depth=2, distinct=True, pools=("far", "item", "fluid", "ns"),
                allow=None, ops=None, typed_frac=1.0):
    types = Types(rng, pools)
    prog = declare_inputs(rng, types, n_in, typed_frac)
    g = ExprGen(rng, types, distinct=distinct, allow=allow, ops=ops)
    g.vars = [(s[1], "sig") for s in prog]
    for k in range(n_stmt):
        e, kind = g.expr(rng.randint(1, depth))
        if kind == "int" or e[0] == "v":
            base, _ = g.leaf(want_sig=True)
            e = g.wrap(["b", "+", base, ["n", rng.randint(1, 9)]])
        name = "v%d" % k
        prog.append(["sig", name, e])
        g.vars.append((name, "sig"))
    return prog
