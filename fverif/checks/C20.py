"""C20 - every named result is exposed and labelled."""
from __future__ import annotations

import random
import re

from .. import gen, lang, sem
from ..lang import CMP_OPS

PROPERTY = "C20"
LEVEL = "exploration"
TIMEOUT = 300
BUDGET = {"quick": 600, "thorough": 3600}
RULE = ("Programs with any mix of consumed and unconsumed top-level names, aliases of one value under several "
        "names, and outputs produced by constants, arithmetic, deciders, memories, wire merges, function returns and "
        "bundles are compiled by the real compiler with optimisation on and off. For every top-level name that no "
        "other statement references the blueprint must contain exactly one empty constant combinator described "
        "`<name> (output anchor)` (unless the producer is itself a constant combinator) on whose network the result's "
        "own signal (each member, for a bundle) reads the reference value for every valuation; a combinator "
        "computing a named arithmetic/decider result or a bundle operation must carry the name and the declaration line in its "
        "description; every typed constant declaration must appear as a constant combinator labelled with its "
        "name and value; consumed names must not get anchors of their own. Non-trivial: at least two unconsumed "
        "names with a non-zero value.")
ASSUMPTIONS = [
    "a name is consumed when any later statement references it (an alias declaration `Signal y = x;` consumes x)",
    "wire merges, aliases and memory reads have no combinator of their own: only the anchor is required for them",
]


def _mk(prog, stratum, rng, nval, **kw):
    c = {"stratum": stratum, "prog": prog, "nval": nval, "vseed": rng.randrange(1 << 30),
         "sseed": rng.randrange(1 << 30), "pseed": rng.randrange(1 << 30), "optimize": rng.random() < 0.5}
    c.update(kw)
    return c


def build(rng):
    types = gen.Types(rng)
    prog = []
    kinds = {}
    nin = rng.randint(2, 4)
    for i in range(nin):
        prog.append(["input", "i%d" % i, types.fresh(), rng.randint(1, 20)])
        kinds["i%d" % i] = "input"
    names = ["i%d" % i for i in range(nin)]
    tm = None
    if rng.random() < 0.5:
        # compile-time ints declared before the named results (they live in the same name map)
        prog.append(["int", "kq", ["n", rng.randint(2, 9)]])
    import copy
    for k in range(rng.randint(3, 9)):
        nm = "n%d" % k
        a, b = rng.choice(names), rng.choice(names)
        form = rng.choice(["arith", "arith", "decider", "sel", "alias", "const", "merge", "memread", "call", "bundle", "proj",
                           "dup", "dup", "foldcall", "subexpr", "coord", "coordnamed", "bundleop"])
        if form == "dup":
            # the same expression as an earlier named result: the optimiser shares the node, both names stay visible
            prev = [s_ for s_ in prog if s_[0] in ("sig", "bun") and kinds.get(s_[1]) in ("arith", "decider", "sel", "proj", "bundle", "call")]
            if not prev:
                form = "arith"
            else:
                src_stmt = rng.choice(prev)
                prog.append([src_stmt[0], nm, copy.deepcopy(src_stmt[2])])
                kinds[nm] = "bundle" if src_stmt[0] == "bun" else "dup"
                if src_stmt[0] == "sig" and rng.random() < 0.4:
                    # the duplicate drives an entity (may be inlined into it); the first name stays an output
                    prog.append(["place", "lamp" + nm, "small-lamp", ["n", 2 * k], ["n", 30], None])
                    prog.append(["set", "lamp" + nm, "enable", ["v", nm]])
                continue
        if form == "foldcall":
            # a call with literal arguments folds to a constant at IR level
            if not any(s_[0] == "func" and s_[1] == "g" for s_ in prog):
                prog.append(["func", "g", [["Signal", "s"], ["int", "q"]], [], ["p", ["b", "*", ["v", "s"], ["v", "q"]], types.fresh()]])
            prog.append(["sig", nm, ["call", "g", [["n", rng.randint(2, 9)], ["n", rng.randint(2, 9)]]]])
            kinds[nm] = "foldcall"
            continue
        if form == "coord":
            # a place() coordinate given by a compile-time evaluable signal expression, declared again under a name
            cs = "cs%d" % k
            prog.append(["input", cs, types.fresh(), rng.randint(1, 4)])
            kinds[cs] = "input"
            ce = ["b", "*", ["v", cs], ["n", 2]]
            prog.append(["place", "lampc%d" % k, "small-lamp", copy.deepcopy(ce), ["n", 40 + 2 * k], None])
            prog.append(["set", "lampc%d" % k, "enable", ["c", ">", ["v", cs], ["n", 0]]])
            prog.append(["sig", nm, copy.deepcopy(ce)])
            kinds[nm] = "arith"
            continue
        if form == "coordnamed":
            # a named signal used as a place() coordinate and read again afterwards
            cs = "cs%d" % k
            prog.append(["input", cs, types.fresh(), rng.randint(1, 4)])
            kinds[cs] = "input"
            prog.append(["sig", nm, ["b", "+", ["v", cs], ["n", 2]]])
            prog.append(["place", "lampd%d" % k, "small-lamp", ["v", nm], ["n", 50 + 2 * k], None])
            prog.append(["set", "lampd%d" % k, "enable", ["c", ">", ["v", cs], ["n", 0]]])
            prog.append(["sig", nm + "y", ["p", ["b", "*", ["v", nm], ["n", 3]], types.fresh()]])
            kinds[nm] = "arith"
            kinds[nm + "y"] = "arith"
            names.append(nm)
            continue
        if form == "subexpr":
            # a named result that is a sub-expression of the next one
            t = types.fresh()
            prog.append(["sig", nm, ["b", "+", ["p", ["b", "*", ["v", a], ["n", 2]], t], ["n", rng.randint(1, 9)]]])
            prog.append(["sig", nm + "s", ["p", ["b", "*", ["v", a], ["n", 2]], t]])
            kinds[nm] = kinds[nm + "s"] = "arith"
            continue
        if form == "arith":
            prog.append(["sig", nm, ["p", ["b", rng.choice(["+", "-", "*"]), ["v", a], ["v", b]], types.fresh()]])
        elif form == "decider":
            cmp_e = ["c", rng.choice(CMP_OPS), ["v", a], ["n", rng.randint(0, 20)]]
            prog.append(["sig", nm, ["p", cmp_e, types.fresh()] if rng.random() < 0.6 else cmp_e])
        elif form == "sel":
            prog.append(["sig", nm, ["s", ["c", rng.choice(CMP_OPS), ["v", a], ["n", rng.randint(0, 20)]], ["v", b]]])
        elif form == "alias":
            prog.append(["sig", nm, ["v", a]])
        elif form == "const":
            prog.append(["sig", nm, ["t", types.fresh(), ["n", rng.randint(1, 99)]]])
        elif form == "merge":
            t = types.fresh()
            prog.append(["input", nm + "a", t, rng.randint(1, 9)])
            prog.append(["input", nm + "b", t, rng.randint(1, 9)])
            kinds[nm + "a"] = kinds[nm + "b"] = "input"
            prog.append(["sig", nm, ["b", "+", ["v", nm + "a"], ["v", nm + "b"]]])
        elif form == "memread":
            if tm is None:
                tm = types.fresh()
                prog.append(["mem", "m", tm])
                # data and enable read declared inputs directly: no start-up transient can latch
                ia, ib = "i%d" % rng.randrange(nin), "i%d" % rng.randrange(nin)
                prog.append(["write", "m", ["p", ["v", ia], tm], ["c", ">", ["v", ib], ["n", 0]]])
            prog.append(["sig", nm, ["r", "m"]])
        elif form == "call":
            if not any(s[0] == "func" and s[1] == "f" for s in prog):
                prog.append(["func", "f", [["Signal", "s"], ["int", "q"]], [], ["p", ["b", "+", ["b", "*", ["v", "s"], ["n", 2]], ["v", "q"]], types.fresh()]])
            prog.append(["sig", nm, ["call", "f", [["v", a], ["n", rng.randint(1, 9)]]]])
        elif form == "bundle":
            prog.append(["bun", nm, ["B", [["v", a], ["t", types.fresh(), ["n", rng.randint(1, 50)]]]]])
            kinds[nm] = "bundle"
            continue
        elif form == "bundleop":
            # a bundle computed by one each-combinator: that combinator carries the name and the line
            prevb = [s_[1] for s_ in prog if s_[0] == "bun" and kinds.get(s_[1]) == "bundle"]
            lit = ["B", [["v", a], ["t", types.fresh(), ["n", rng.randint(1, 50)]]]]
            left = ["v", rng.choice(prevb)] if prevb and rng.random() < 0.5 else lit
            prog.append(["bun", nm, ["bb", rng.choice(["+", "*", "-"]), left, ["n", rng.randint(2, 7)]]])
            kinds[nm] = "bundleop"
            continue
        else:
            prog.append(["sig", nm, ["p", ["v", a], types.fresh()]])
        kinds[nm] = form
        if form not in ("bundle",) and rng.random() < 0.6:
            names.append(nm)
    return prog, kinds


def gen_cases(tier, seed):
    n = 260 if tier == "quick" else 3000
    nval = 4 if tier == "quick" else 8
    rng = random.Random(20000003 * seed + 59)
    cases = []
    for i in range(n):
        sub = random.Random(rng.randrange(1 << 60))
        prog, kinds = build(sub)
        c = _mk(prog, "mixed_names", sub, nval, kinds=kinds)
        c["id"] = i
        cases.append(c)
    return cases


def referenced_names(prog):
    """Names referenced by some statement other than their own declaration."""
    ref = set()

    def visit(e):
        if e[0] == "v":
            ref.add(e[1])
        if e[0] in ("p", "t"):
            t = e[2] if e[0] == "p" else e[1]
            if isinstance(t, list):
                ref.add(t[1])

    for s in prog:
        if s[0] == "func":
            continue
        for x in s[1:]:
            if isinstance(x, list) and x and isinstance(x[0], str) and x[0] in lang._EXPR_KINDS:
                lang.walk_expr(x, visit)
        if s[0] == "set":
            pass
    return ref


def run_case(case):
    prog, kinds = case["prog"], case["kinds"]
    src, lines, b = sem.compile_prog(prog, case)
    base = {"shape": lang.shape_of(prog), "stratum": case["stratum"] + ("_opt" if case.get("optimize") else "_noopt")}
    if not b.ok:
        return dict(base, verdict="vacuous", why="rejected: " + str(b.error)[:300], src=src)
    ex = sem.Exec(b, prog)
    refd = referenced_names(prog)
    top = [s[1] for s in prog if s[0] in ("sig", "bun")]
    unconsumed = [n for n in top if n not in refd]
    problems = []
    ents = ex.view.bp.get("entities", [])
    descs = [(e["entity_number"], e["name"], e.get("player_description") or "") for e in ents]
    # (3) typed constant declarations labelled with name and value
    for s in prog:
        if s[0] == "input":
            pat = re.compile(r"^\[<string>:%d\] %s \(value=%d( \(input\))?\)" % (lines[s[1]], re.escape(s[1]), s[3]))
            hits = [d for d in descs if d[1] == "constant-combinator" and pat.search(d[2])]
            if len(hits) != 1:
                # an input that was aliased keeps its combinator but may be relabelled with the alias name
                alt = [d for d in descs if d[1] == "constant-combinator" and re.search(r"\(value=%d( \(input\))?\)" % s[3], d[2])]
                problems.append({"name": s[1], "what": "declared constant not labelled with its name, line and value exactly once",
                                 "found": [d[2] for d in hits] or [d[2] for d in alt][:3]})
    # (1)+(2) anchors
    for n in unconsumed:
        k = kinds.get(n)
        anchors = ex.view.anchors.get(n, [])
        is_const_producer = k == "const"
        if is_const_producer:
            if anchors:
                problems.append({"name": n, "what": "constant producer got an anchor", "n": len(anchors)})
            if n not in ex.view.consts:
                problems.append({"name": n, "what": "named constant result not labelled"})
            continue
        if len(anchors) != 1:
            problems.append({"name": n, "what": "expected exactly one output anchor", "found": len(anchors), "kind": k})
            continue
        anc = next(e for e in ents if e["entity_number"] == anchors[0][0])
        if (anc.get("control_behavior") or {}).get("sections"):
            problems.append({"name": n, "what": "anchor is not empty"})
        if k in ("arith", "decider", "sel", "bundleop"):
            pat = re.compile(r"^\[<string>:%d\] %s \(" % (lines[n], re.escape(n)))
            hits = [d for d in descs if d[1] in ("arithmetic-combinator", "decider-combinator") and pat.search(d[2])]
            if not hits:
                problems.append({"name": n, "what": "no combinator carries the name and declaration line",
                                 "line": lines[n], "kind": k,
                                 "similar": [d[2] for d in descs if (" %s " % n) in d[2]][:3]})
    for n in top:
        if n in refd and n in ex.view.anchors and kinds.get(n) not in ("bundle", "bundleop"):
            problems.append({"name": n, "what": "consumed name got an output anchor"})
    # values on anchors
    rng = random.Random(case["vseed"])
    vals = gen.valuations(prog, case["nval"], rng, small=True)
    sim = ex.sim("phys")
    nonzero_names = set()
    has_mem = any(s[0] == "mem" for s in prog)
    vfail = None
    if not problems:
        for val in vals:
            try:
                it = lang.Interp(prog, val).run()
            except lang.Unspec:
                continue
            if has_mem:
                # observe from the reset state: cell = data if enabled else 0
                st = {}
                for mid, kind, data, en, _s in it.writes:
                    st[mid] = data.value if (en is None or en.value > 0) else 0
                it = lang.Interp(prog, val, mem=st).run()
            exp = {k: v for k, v in sem.expected_of(it).items() if k in unconsumed}
            for n_ in sim._comb:
                sim.out[n_] = {}
            obs = ex.observe(sim, val)
            if obs["missing_inputs"]:
                return dict(base, verdict="inconclusive", why="input relabelled: %s" % obs["missing_inputs"], src=src)
            mm, c, nz = sem.compare_outputs(exp, obs, skip=set(val), bundles_exact=False)
            for k_, e_ in exp.items():
                if e_[2]:
                    nonzero_names.add(k_)
            if mm:
                vfail = (val, mm, exp)
                break
    if problems:
        return dict(base, verdict="violated", nontrivial=True, evaluations=len(vals),
                    why="labelling: %s" % (problems[0],), witness={"source": src, "problems": problems[:5],
                                                                     "optimize": case.get("optimize")})
    if vfail:
        val, mm, exp = vfail

        def replay(s2):
            for n_ in s2._comb:
                s2.out[n_] = {}
            o2 = ex.observe(s2, val)
            return sem.compare_outputs(exp, o2, skip=set(val), bundles_exact=False)[0]

        stage, detail = sem.stage_of_failure(ex, replay)
        res = dict(base, verdict="violated", nontrivial=True, evaluations=len(vals),
                   why="%s: %s" % (stage, mm[0]), witness={"source": src, "inputs": val, "mismatches": mm[:3], "stage": stage})
        if stage == sem.K1:
            res["finding"] = sem.K1
        return res
    return dict(base, verdict="held", nontrivial=len(nonzero_names) >= 2, evaluations=len(vals),
                monitors={"plan": 1}, sample={"source": src, "unconsumed": unconsumed, "optimize": case.get("optimize")})
