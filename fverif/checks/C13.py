"""C13 - compiler-chosen signals are fresh: renaming them changes nothing."""
from __future__ import annotations

import random

from .. import protos, fsim, gen, lang, monitors, sem, twins
from ..lang import CMP_OPS

PROPERTY = "C13"
LEVEL = "exploration"
TIMEOUT = 300
BUDGET = {"quick": 600, "thorough": 3600}
REQUIRED_MONITORS = ["allocations"]
RULE = ("[strata added in the build: bundle literals whose members sit at the head of the allocation pool next to "
        "untyped values; untyped values whose variable name is a game signal name] "
        "Programs mixing untyped values (inputs, results, memories) with explicitly typed ones in arithmetic, "
        "conditions, merges and memories, including explicit use of the head of the allocation pool (signal-A.., "
        "digits) and programs with 30-140 untyped values, are compiled by the real compiler. (i) A harness "
        "monitor on SignalAnalyzer._allocate_factorio_virtual_signal records every compiler-chosen name: it must "
        "not be a wildcard, not signal-W and not a name the program uses explicitly, and no name may be handed "
        "out twice while the pool is not exhausted; every explicit name of the program appears verbatim in the "
        "blueprint. (ii) Twin rename_implicit: the same program with every untyped value projected onto a fresh "
        "unused explicit signal is executed for the same valuations and must agree on every output and entity "
        "condition (compiler-chosen names compared by value). Non-trivial: at least one compiler-chosen signal "
        "was allocated and an output compared non-zero.")
ASSUMPTIONS = [
    "the explicit names of a program are the signal-name strings of its description (declarations, literals, projections, memory types)",
    "programs stay below the pool size (152 allocatable virtual signals minus the explicit ones)",
]

F_COLLIDE = "C13-pool-does-not-exclude-explicit-names"
WILD = set(fsim.WILD)


def _mk(prog, stratum, rng, nval, **kw):
    c = {"stratum": stratum, "prog": prog, "nval": nval, "vseed": rng.randrange(1 << 30),
         "sseed": rng.randrange(1 << 30), "pseed": rng.randrange(1 << 30)}
    c.update(kw)
    return c


def explicit_names(prog):
    names = set()

    def visit(e):
        if e[0] == "t" and isinstance(e[1], str):
            names.add(e[1])
        if e[0] == "p" and isinstance(e[2], str):
            names.add(e[2])
        if e[0] == "bs":
            names.add(e[2])

    def stmt(s):
        if s[0] == "input" and s[2]:
            names.add(s[2])
        if s[0] == "mem" and s[2]:
            names.add(s[2])
        for x in s[1:]:
            if isinstance(x, list) and x and isinstance(x[0], str) and x[0] in lang._EXPR_KINDS:
                lang.walk_expr(x, visit)
        if s[0] == "for":
            for b in s[3]:
                stmt(b)
        if s[0] == "func":
            for b in s[3]:
                stmt(b)
            if s[4] is not None:
                lang.walk_expr(s[4], visit)

    for s in prog:
        stmt(s)
    return names


def s_mix(rng, nval, head=False):
    pools = ("far", "item", "fluid") if not head else ("head",)
    types = gen.Types(rng, pools)
    far = gen.Types(rng, ("far", "item"))
    prog = []
    n_exp = rng.randint(1, 4)
    n_imp = rng.randint(1, 5)
    names = []
    for i in range(n_exp):
        prog.append(["input", "e%d" % i, types.fresh(), gen.rand_value(rng, True)])
        names.append("e%d" % i)
    for i in range(n_imp):
        prog.append(["input", "u%d" % i, None, gen.rand_value(rng, True)])
        names.append("u%d" % i)
    for k in range(rng.randint(2, 6)):
        a, b = rng.choice(names), rng.choice(names)
        form = rng.choice(["arith", "arith", "cmp", "sel", "proj", "projty"])
        if form == "projty":
            # `expr | u.type` with u untyped: the result travels on u's compiler-chosen signal
            ut = rng.choice([n_ for n_ in names if n_.startswith("u")] or ["u0"])
            e = ["p", ["b", rng.choice(["+", "*"]), ["v", a], ["n", rng.randint(1, 5)]], ["ty", ut]]
        elif form == "arith":
            e = ["b", rng.choice(["+", "-", "*"]), ["v", a], ["v", b]]
        elif form == "cmp":
            e = ["c", rng.choice(CMP_OPS), ["v", a], ["v", b]]
        elif form == "sel":
            e = ["s", ["c", rng.choice(CMP_OPS), ["v", a], ["n", rng.randint(-3, 9)]], ["v", b]]
        else:
            e = ["p", ["b", "+", ["v", a], ["v", b]], far.fresh()]
        prog.append(["sig", "r%d" % k, e])
        if rng.random() < 0.5:
            names.append("r%d" % k)
    return _mk(prog, "mix_head_of_pool" if head else "mix", rng, nval)


def s_mix_head(rng, nval):
    return s_mix(rng, nval, head=True)


def s_memory(rng, nval):
    types = gen.Types(rng)
    prog = [["input", "d", None, gen.rand_value(rng, True)], ["input", "e", types.fresh(), 1],
            ["input", "x", rng.choice(["signal-A", "signal-B", None]), gen.rand_value(rng, True)]]
    prog.append(["mem", "m", None])
    prog.append(["write", "m", ["b", "+", ["v", "d"], ["n", rng.randint(0, 5)]], ["c", ">", ["v", "e"], ["n", 0]]])
    prog.append(["sig", "q", ["b", "+", ["r", "m"], ["v", "x"]]])
    prog.append(["sig", "q2", ["p", ["b", "*", ["r", "m"], ["n", 2]], types.fresh()]])
    return _mk(prog, "implicit_memory", rng, nval, edges={"e": [0, 1]}, memory=True)


def s_many(rng, nval, sizes=(30, 45, 60)):
    """More untyped values than the 26 letter signals; every value has its own private consumer so
    that the listed transitive-merge defect cannot interfere."""
    types = gen.Types(rng, ("far", "item", "fluid", "ns"))
    n = rng.choice(sizes)
    prog = []
    explicit_head = rng.sample(gen.HEAD_VIRT + ["signal-Z", "signal-9", "signal-red", "signal-green"], k=3)
    for j, t in enumerate(explicit_head):
        prog.append(["input", "h%d" % j, t, rng.randint(1, 9)])
        prog.append(["sig", "hh%d" % j, ["p", ["b", "+", ["v", "h%d" % j], ["n", 1]], types.fresh()]])
    # explicit uses of virtual signals whose names do not start with "signal-" (arrows, shapes): they sit deep in the
    # allocation pool (from about the 45th allocation on) and must be skipped like every other name the program uses
    for j, t in enumerate(rng.sample(gen.NS_VIRT, k=rng.randint(2, 6))):
        prog.append(["input", "ns%d" % j, t, rng.randint(1, 9)])
        prog.append(["sig", "nn%d" % j, ["p", ["b", "+", ["v", "ns%d" % j], ["n", 2]], types.fresh()]])
    for i in range(n):
        prog.append(["input", "w%d" % i, None, rng.randint(-9, 9)])
        if i < 40:
            prog.append(["sig", "t%d" % i, ["p", ["b", rng.choice(["+", "*", "-"]), ["v", "w%d" % i], ["n", rng.randint(1, 5)]], types.fresh()]])
        else:
            prog.append(["sig", "t%d" % i, ["b", rng.choice(["+", "*", "-"]), ["v", "w%d" % i], ["n", rng.randint(1, 5)]]])
    return _mk(prog, "many_untyped_%d" % n, rng, max(2, nval // 3), schedule=["default"] if n > 45 else None)


def s_many_big(rng, nval):
    return s_many(rng, nval, sizes=(60, 100, 140))


def s_bundle_head(rng, nval):
    """Bundle literals whose members sit at the head of the allocation pool, next to untyped values that share
    wires with the bundle (any/all thresholds, each-operation scalars, selections)."""
    members = rng.sample(gen.HEAD_VIRT, k=rng.randint(2, 4))
    prog = [["bun", "b", ["B", [["t", t, ["n", rng.randint(1, 9)]] for t in members]]]]
    nu = rng.randint(1, 3)
    for i in range(nu):
        prog.append(["input", "u%d" % i, None, rng.randint(1, 9)])
    far = gen.Types(rng, ("far", "item"))
    for k in range(rng.randint(1, 4)):
        u = ["v", "u%d" % rng.randrange(nu)]
        form = rng.choice(["any", "all", "sel", "each", "filter", "plain"])
        if form in ("any", "all"):
            prog.append(["sig", "r%d" % k, [form, rng.choice(CMP_OPS), ["v", "b"], u]])
        elif form == "sel":
            prog.append(["sig", "r%d" % k, ["b", rng.choice(["+", "*"]), ["bs", ["v", "b"], rng.choice(members)], u]])
        elif form == "each":
            prog.append(["bun", "r%d" % k, ["bb", rng.choice(["+", "*", "-"]), ["v", "b"], u]])
        elif form == "filter":
            prog.append(["bun", "r%d" % k, ["bf", rng.choice(CMP_OPS), ["v", "b"], u, "copy"]])
        else:
            prog.append(["sig", "r%d" % k, ["b", "+", u, ["n", rng.randint(1, 5)]]])
    if rng.random() < 0.5:
        prog.append(["sig", "e", ["p", ["b", "+", ["v", "u0"], ["n", 1]], far.fresh()]])
    return _mk(prog, "bundle_literal_at_head_of_pool", rng, nval, small=True)


def s_named_like_signal(rng, nval):
    """Untyped values whose VARIABLE NAME is a game signal name (coal, water, ...), next to explicit uses of that signal."""
    pool = ["coal", "wood", "stone", "pipe", "rail", "water", "steam", "lab", "pump", "boiler"]
    names = rng.sample(pool, k=rng.randint(1, 3))
    far = gen.Types(rng, ("far",))
    prog = []
    for nm in names:
        prog.append(["input", nm, None, rng.randint(1, 9)])
    other = rng.choice(names)
    prog.append(["input", "e0", other, rng.randint(1, 9)])        # the same signal, used explicitly
    prog.append(["sig", "r0", ["p", ["b", "+", ["v", names[0]], ["v", "e0"]], far.fresh()]])
    for k, nm in enumerate(names):
        prog.append(["sig", "q%d" % k, ["b", rng.choice(["+", "*"]), ["v", nm], ["n", rng.randint(1, 5)]]])
    return _mk(prog, "untyped_value_named_like_a_signal", rng, nval, small=True)


def s_dup_untyped(rng, nval):
    """The same untyped computation written twice (each gets its own placeholder) with the LATER copy consumed where the
    signal is resolved from the reference's type: latch set / reset / value, an untyped memory, an entity's enable."""
    far = gen.Types(rng, ("far",))
    items = rng.sample(["iron-plate", "copper-plate", "coal", "stone", "water", "steel-plate"], k=2)
    prog = [["input", "iron", items[0], rng.randint(0, 200)], ["input", "cop", items[1], rng.randint(0, 20)]]
    thr = rng.randint(50, 150)
    e = ["c", ">", ["v", "iron"], ["n", thr]] if rng.random() < 0.7 else ["b", "+", ["v", "iron"], ["n", 1]]
    import copy
    prog.append(["sig", "c1", copy.deepcopy(e)])
    prog.append(["sig", "c2", copy.deepcopy(e)])
    use = rng.choice(["latch_set", "latch_reset", "enable", "untyped_mem", "latch_set"])
    memory = False
    if use in ("latch_set", "latch_reset"):
        prog.append(["mem", "m", far.fresh()])
        other = ["c", ">", ["v", "cop"], ["n", rng.randint(5, 15)]]
        if use == "latch_set":
            prog.append(["latch", "m", ["n", rng.choice([1, 10])], ["v", "c2"], other, rng.choice(["sr", "rs"])])
        else:
            prog.append(["latch", "m", ["n", rng.choice([1, 10])], other, ["v", "c2"], rng.choice(["sr", "rs"])])
        prog.append(["sig", "out", ["p", ["r", "m"], far.fresh()]])
        memory = True
    elif use == "untyped_mem":
        prog.append(["mem", "m", None])
        prog.append(["write", "m", ["v", "c2"], ["c", ">", ["v", "cop"], ["n", 0]]])
        prog.append(["sig", "out", ["p", ["r", "m"], far.fresh()]])
        memory = True
    else:
        prog.append(["place", "lamp", "small-lamp", ["n", 0], ["n", 20], None])
        prog.append(["set", "lamp", "enable", ["v", "c2"]])
        prog.append(["sig", "status", ["p", ["b", "*", ["v", "c2"], ["n", 3]], far.fresh()]])
    prog.append(["sig", "first", ["p", ["b", "+", ["v", "c1"], ["n", 0]], far.fresh()]])
    return _mk(prog, "duplicated_untyped_value_" + use, rng, nval, small=True,
               edges={"iron": [thr - 1, thr, thr + 1, 0, 200], "cop": [0, 1, 4, 5, 6, 16, 20]}, memory=memory)


STRATA = [(s_mix, 6), (s_mix_head, 4), (s_memory, 2), (s_many, 2), (s_bundle_head, 3), (s_named_like_signal, 2), (s_dup_untyped, 3)]


def gen_cases(tier, seed):
    global STRATA
    if tier == "thorough" and not any(f is s_many_big for f, _w in STRATA):
        STRATA = STRATA + [(s_many_big, 1)]
    n = 200 if tier == "quick" else 2000
    nval = 8 if tier == "quick" else 16
    rng = random.Random(13000039 * seed + 53)
    weights = [w for _f, w in STRATA]
    cases = []
    for i in range(n):
        f = rng.choices([f for f, _w in STRATA], weights)[0]
        sub = random.Random(rng.randrange(1 << 60))
        c = f(sub, nval)
        c["id"] = i
        cases.append(c)
    return cases


def worker_init():
    monitors.attach_alloc_monitor()


def signal_names_in_blueprint(bp):
    names = set()

    def walk(x):
        if isinstance(x, dict):
            if "name" in x and isinstance(x["name"], str) and ("type" in x or "count" in x or "quality" in x or len(x) <= 3):
                names.add(x["name"])
            for v in x.values():
                walk(v)
        elif isinstance(x, list):
            for v in x:
                walk(v)

    for e in (bp.get("blueprint") or bp).get("entities", []):
        walk(e.get("control_behavior") or {})
    return names


def run_case(case):
    monitors.ALLOC_LOG.clear()
    prog = case["prog"]
    expl = explicit_names(prog)
    pool = gen.Types(random.Random(case["pseed"]), ("far", "item", "fluid", "ns"))

    def fresh():
        while True:
            t = pool.fresh()
            if t not in expl:
                return t

    try:
        twin = twins.rename_implicit(prog, fresh)
    except RuntimeError:
        twin = None
    # (i) allocation monitor on the build of the original program
    src, _l, b = sem.compile_prog(prog, case)
    allocs = list(monitors.ALLOC_LOG)
    base = {"shape": lang.shape_of(prog), "stratum": case["stratum"]}
    mon = {"allocations": len(allocs)}
    if not b.ok:
        return dict(base, verdict="vacuous", why="rejected: " + str(b.error)[:300], src=src, monitors=mon)
    problems = []
    seen = set()
    for a in allocs:
        nm = a["name"]
        if nm in WILD or nm == "signal-W":
            problems.append({"what": "reserved or wildcard signal allocated", "name": nm})
        if nm in expl:
            problems.append({"what": "compiler-chosen signal is used explicitly by the program", "name": nm})
        if nm in seen and not a["wrapped"]:
            problems.append({"what": "signal allocated twice before the pool is exhausted", "name": nm})
        seen.add(nm)
    used = signal_names_in_blueprint(b.bp)
    for nm in sorted(used):
        # every signal name of the blueprint is a signal of the game (never a compiler placeholder such as __v1)
        if nm.startswith("__") or not protos.is_known_signal(nm):
            problems.append({"what": "blueprint uses a name that is not a game signal", "name": nm})
    if problems:
        res = dict(base, verdict="violated", nontrivial=True, monitors=mon,
                   why="allocation: %s" % problems[0], witness={"source": src, "problems": problems[:4],
                                                                 "explicit": sorted(expl)[:12]})
        if all(p["what"].startswith("compiler-chosen signal is used explicitly") for p in problems):
            res["finding"] = F_COLLIDE
        return res
    if twin is None:
        return dict(base, verdict="inconclusive", why="type pool exhausted for the twin", monitors=mon)
    res = sem.run_twin_case(case, prog, {}, twin, {}, label_a="implicit", label_b="renamed explicit",
                            reference=not case.get("memory"))
    if res.get("verdict") == "violated" and (res.get("witness") or {}).get("oracle") == "reference":
        # implicit and renamed builds agree with each other and deviate identically from the reference: not a matter
        # of which signals the compiler chose (C01 / C02 decide such programs); finish the twin comparison alone
        note = "both builds deviate identically from the reference semantics: %s" % res.get("why", "")[:200]
        res = sem.run_twin_case(case, prog, {}, twin, {}, label_a="implicit", label_b="renamed explicit", reference=False)
        if res.get("verdict") == "held":
            res["common_deviation"] = note
    res.setdefault("monitors", {})
    res["monitors"].update(mon)
    if res.get("verdict") == "held":
        res["nontrivial"] = bool(allocs) and res.get("nontrivial", False)
    return res
