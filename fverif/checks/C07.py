"""C07 - the printed blueprint string carries the whole circuit."""
from __future__ import annotations

import base64
import copy
import re
import json
import os
import random
import shutil
import subprocess
import tempfile
import zlib

from .. import canon, driver, gen, lang, pool, sem
from . import C01, C02, C03, C05, C06

PROPERTY = "C07"
LEVEL = "exploration"
TIMEOUT = 600
BUDGET = {"quick": 600, "thorough": 3600}
REQUIRED_MONITORS = ["cli_runs", "plan_entities"]
RULE = ("Generated programs from the C01-C06 strata (kept below ~20 entities so the CLI's own solver is fast) are "
        "compiled (1) in-process with the harness-attached plan monitor: every placement of the LayoutPlan must "
        "appear exactly once in the exported JSON with its complete configuration (arithmetic operands / operation / "
        "output / network selections, decider rows / outputs / copy flag / constants, constant sections, entity "
        "circuit conditions) recomputed independently from the placement properties, and every planned wire with "
        "its connectors; (2) through the real entry points as subprocesses - python -m dsl_compiler, python "
        "compile.py, python -c 'from dsl_compiler.cli import main; main()' - over {file, -i} x {string, --json} x "
        "{stdout, -o} x {--no-optimize, --power-poles T, --name}: the text must decode (base64+zlib+JSON or JSON), "
        "stdout must carry nothing but the blueprint (nothing with -o), the canonical logical circuit must equal the "
        "in-process reference of the same source and options, string and --json forms must describe the same "
        "circuit, and executing the decoded text in the circuit model must give the reference outputs. "
        "evaluations = CLI runs + in-process builds; non-trivial = a decoded blueprint with >= 3 configured "
        "combinators compared.")
ASSUMPTIONS = [
    "the factompile console script is not installed in this environment; python -c 'from dsl_compiler.cli import main; main()' is the same entry point",
    "logical-circuit equality is taken up to the canonical form of fverif/canon.py (positions, numbering and relay poles erased)",
]

CMP_NORM = {"==": "=", "=": "=", "!=": "≠", "≠": "≠", "<=": "≤", "≤": "≤", ">=": "≥", "≥": "≥", "<": "<", ">": ">"}
MIRROR = {"<": ">", ">": "<", "≤": "≥", "≥": "≤", "=": "=", "≠": "≠"}


def s_emitter_paths(rng, nval):
    """One program through every configuration path of the entity emitter: single- and multi-row deciders with a
    constant, a copied signal and a same-channel copied signal as output, both operand orders, each-arithmetic."""
    types = gen.Types(rng)
    ta, tc = types.fresh(), types.fresh()
    prog = [["input", "a", ta, rng.randint(4, 9)], ["input", "c", tc, rng.randint(0, 2)], ["input", "v", ta, rng.randint(50, 99)],
            ["input", "w", types.fresh(), rng.randint(10, 40)]]
    lg = rng.choice(["&&", "||"])
    chain = [lg, ["c", ">", ["v", "a"], ["n", 3]], ["c", "<", ["v", "c"], ["n", 3]]]
    prog.append(["sig", "o1", ["s", chain, ["v", "v"]]])                               # rows, copy, same channel as a
    prog.append(["sig", "o2", ["p", ["s", chain, ["v", "w"]], types.fresh()]])          # rows, copy, other channel
    prog.append(["sig", "o3", ["p", ["s", chain, ["n", rng.randint(2, 30)]], types.fresh()]])   # rows, constant
    prog.append(["sig", "o4", ["s", ["c", ">", ["v", "a"], ["v", "c"]], ["v", "v"]]])   # one row, copy, same channel
    prog.append(["sig", "o5", ["p", ["s", ["c", "<", ["n", 3], ["v", "a"]], ["v", "w"]], types.fresh()]])  # literal left
    prog.append(["bun", "bb", ["bb", "*", ["B", [["v", "c"], ["v", "w"]]], ["n", 2]]])
    return {"prog": prog}


ROSTER = [C01.s_op_single, C01.s_dag_distinct, C01.s_sel, C01.s_logic_chain, C01.s_literal_left, C01.s_sel_same_typed,
          C01.s_two_producers, C02.s_arith, C02.s_filter, C02.s_gate, C02.s_anyall,
          C06.s_inline, C06.s_noninline, C06.s_chest, "mem", "latch", s_emitter_paths]


def small_program(rng, f=None):
    f = f or rng.choice(ROSTER)
    if f == "mem":
        return C03.build(rng, "basic")[0]
    if f == "latch":
        return C05.build(rng, rng.choice(C05.KINDS), rng.choice(["sr", "rs"]))[0]
    return f(rng, 1)["prog"]


def gen_cases(tier, seed):
    rng = random.Random(7000003 * seed + 89)
    n = 40 if tier == "quick" else 400
    cases = []
    for i in range(n):
        sub = random.Random(rng.randrange(1 << 60))
        # every generator once (so that each emitter path is in every run), then at random
        prog = small_program(sub, ROSTER[i] if i < len(ROSTER) else None)
        runs = []
        for _ in range(3 if tier == "quick" else 5):
            entry = sub.choice(["module", "compile_py", "main_call"])
            runs.append({"entry": entry, "file": True if entry == "compile_py" else sub.random() < 0.5,
                         "json": sub.random() < 0.5, "out": sub.random() < 0.5,
                         "no_optimize": sub.random() < 0.3, "poles": sub.choice([None, None, "medium", "small", "substation"]),
                         "name": sub.choice([None, None, "My Factory", "x"]), "cwd": sub.choice(["tmp", "repo", "root"])})
        # one string/json pair with identical options
        runs.append(dict(runs[0], json=not runs[0]["json"]))
        cases.append({"id": i, "stratum": "cli_matrix", "prog": prog, "runs": runs, "pseed": sub.randrange(1 << 30),
                      "vseed": sub.randrange(1 << 30), "nval": 4})
    return cases


_RE_SRC = re.compile(r"^\[[^\]\[:]*(?::(\d+))?\]")


def nofile(bp):
    """Descriptions carry '[<source name>:<line>]'; the source name legitimately differs between -i, file and in-process."""
    b = copy.deepcopy(bp)
    for e in b["blueprint"].get("entities", []):
        if "player_description" in e:
            e["player_description"] = _RE_SRC.sub(lambda m: "[:%s]" % (m.group(1) or ""), e["player_description"])
    return b


def decode(text, as_json):
    t = text.strip()
    if as_json:
        return json.loads(t)
    if not t or t[0] != "0":
        raise ValueError("not a version-0 blueprint string: %r" % t[:40])
    return json.loads(zlib.decompress(base64.b64decode(t[1:])))


def run_cli(src, run, tmp):
    env = dict(os.environ)
    env["PYTHONPATH"] = driver.REPO
    env.pop("FACTO_VERIF", None)
    if run["entry"] == "module":
        cmd = [pool.PY, "-m", "dsl_compiler"]
    elif run["entry"] == "compile_py":
        cmd = [pool.PY, os.path.join(driver.REPO, "compile.py")]
    else:
        cmd = [pool.PY, "-c", "from dsl_compiler.cli import main; main()"]
    if run["file"]:
        p = os.path.join(tmp, "some dir", "prog_%d.facto" % random.randrange(1 << 30))
        os.makedirs(os.path.dirname(p), exist_ok=True)
        with open(p, "w") as f:
            f.write(src)
        cmd.append(p)
    else:
        cmd += ["-i", src]
    outp = None
    if run["out"]:
        outp = os.path.join(tmp, "out", "bp_%d.txt" % random.randrange(1 << 30))
        cmd += ["-o", outp]
    if run["json"]:
        cmd.append("--json")
    if run["no_optimize"]:
        cmd.append("--no-optimize")
    if run["poles"]:
        cmd += ["--power-poles", run["poles"]]
    if run["name"]:
        cmd += ["--name", run["name"]]
    cwd = {"tmp": tmp, "repo": driver.REPO, "root": "/"}[run["cwd"]]
    pr = subprocess.run(cmd, capture_output=True, text=True, cwd=cwd, env=env, timeout=400)
    text = None
    if outp and os.path.exists(outp):
        with open(outp) as f:
            text = f.read()
    return pr, text, outp


# ------------------------------------------------------------------ plan completeness

def _sig(x):
    if x is None:
        return None
    if isinstance(x, dict):
        return x.get("name")
    return x


def _nets(sel):
    sel = sel or {}
    return (sel.get("red", True), sel.get("green", True))


def _want_nets(wires):
    if not wires:
        return (True, True)
    return ("red" in wires, "green" in wires)


def check_plan_entity(pl, e):
    """Compare one placement with its exported entity; returns list of problems."""
    out = []
    props = pl.properties
    if e["name"] != pl.entity_type:
        return [{"what": "prototype differs", "plan": pl.entity_type, "json": e["name"]}]
    if pl.position is not None and (abs(e["position"]["x"] - pl.position[0]) > 1e-6 or abs(e["position"]["y"] - pl.position[1]) > 1e-6):
        out.append({"what": "position differs", "plan": pl.position, "json": e["position"]})
    cb = e.get("control_behavior") or {}
    if pl.entity_type == "arithmetic-combinator":
        ac = cb.get("arithmetic_conditions")
        if ac is None:
            return out + [{"what": "arithmetic combinator exported without its configuration"}]
        op = props.get("operation", "+")
        if ac.get("operation", "*") != op:
            out.append({"what": "operation", "plan": op, "json": ac.get("operation", "*")})
        for side, skey, ckey, nkey in (("left", "first_signal", "first_constant", "first_signal_networks"),
                                       ("right", "second_signal", "second_constant", "second_signal_networks")):
            want = props.get(side + "_operand")
            if isinstance(want, int):
                if ac.get(ckey, 0) != want or ac.get(skey) is not None:
                    out.append({"what": side + " constant operand", "plan": want, "json": [ac.get(ckey), ac.get(skey)]})
            else:
                if _sig(ac.get(skey)) != want:
                    out.append({"what": side + " signal operand", "plan": want, "json": ac.get(skey)})
                elif _nets(ac.get(nkey)) != _want_nets(props.get(side + "_operand_wires", {"red", "green"})):
                    out.append({"what": side + " operand network selection", "plan": sorted(props.get(side + "_operand_wires", [])),
                                "json": ac.get(nkey)})
        want_out = props.get("output_signal")
        if want_out == "signal-each" and props.get("left_operand") != "signal-each" and props.get("right_operand") != "signal-each":
            want_out = "signal-0"
        if _sig(ac.get("output_signal")) != want_out:
            out.append({"what": "output signal", "plan": want_out, "json": ac.get("output_signal")})
    elif pl.entity_type == "decider-combinator":
        dc = cb.get("decider_conditions")
        if dc is None:
            return out + [{"what": "decider combinator exported without its configuration"}]
        rows = dc.get("conditions") or []
        conds = props.get("conditions") or props.get("multi_conditions")
        want_rows = []
        if conds:
            for c in conds:
                fs, fc = c.get("first_signal"), c.get("first_constant")
                ss, sc = c.get("second_signal"), c.get("second_constant")
                comp = CMP_NORM.get(c.get("comparator", ">"), c.get("comparator"))
                fw, sw = c.get("first_signal_wires"), c.get("second_signal_wires")
                if not fs and fc is not None and ss:
                    fs, ss, sc, fw, sw, comp = ss, None, fc, sw, None, MIRROR.get(comp, comp)
                want_rows.append((fs, comp, ss, sc if not ss else None, _want_nets(fw), _want_nets(sw) if ss else None,
                                  c.get("compare_type", "or")))
        else:
            l, r = props.get("left_operand"), props.get("right_operand")
            comp = CMP_NORM.get(props.get("operation", "="), props.get("operation"))
            lw, rw = props.get("left_operand_wires", {"red", "green"}), props.get("right_operand_wires", {"red", "green"})
            if isinstance(l, int) and not isinstance(r, int):
                l, r, lw, rw, comp = r, l, rw, lw, MIRROR.get(comp, comp)
            want_rows.append((l, comp, None if isinstance(r, int) else r, r if isinstance(r, int) else None,
                              _want_nets(lw), None if isinstance(r, int) else _want_nets(rw), "or"))
        if len(rows) != len(want_rows):
            out.append({"what": "number of condition rows", "plan": len(want_rows), "json": len(rows)})
        for i, (w, row) in enumerate(zip(want_rows, rows)):
            fs, comp, ss, sc, fn, sn, ct = w
            got = (_sig(row.get("first_signal")), CMP_NORM.get(row.get("comparator", "<"), row.get("comparator")),
                   _sig(row.get("second_signal")), row.get("constant", 0) if row.get("second_signal") is None else None)
            if (fs, comp, ss) != got[:3] or (ss is None and (sc or 0) != got[3]):
                out.append({"what": "condition row %d" % i, "plan": [fs, comp, ss, sc], "json": row})
                continue
            if isinstance(fs, str) and _nets(row.get("first_signal_networks")) != fn:
                out.append({"what": "condition row %d first network selection" % i, "plan": fn, "json": row.get("first_signal_networks")})
            if ss is not None and sn is not None and _nets(row.get("second_signal_networks")) != sn:
                out.append({"what": "condition row %d second network selection" % i, "plan": sn, "json": row.get("second_signal_networks")})
            if i > 0 and row.get("compare_type", "or") != ct:
                out.append({"what": "condition row %d combine type" % i, "plan": ct, "json": row.get("compare_type", "or")})
        outs = dc.get("outputs") or []
        if len(outs) != 1:
            out.append({"what": "number of outputs", "json": len(outs)})
        else:
            o = outs[0]
            if _sig(o.get("signal")) != props.get("output_signal"):
                out.append({"what": "output signal", "plan": props.get("output_signal"), "json": o.get("signal")})
            copy = bool(props.get("copy_count_from_input", False))
            if o.get("copy_count_from_input", True) != copy:
                out.append({"what": "copy_count_from_input", "plan": copy, "json": o.get("copy_count_from_input", True)})
            if not copy and isinstance(props.get("output_value", 1), int) and o.get("constant", 1) != props.get("output_value", 1):
                out.append({"what": "output constant", "plan": props.get("output_value", 1), "json": o.get("constant", 1)})
            if copy and props.get("output_value_wires") and _nets(o.get("networks")) != _want_nets(props.get("output_value_wires")):
                out.append({"what": "output network selection", "plan": sorted(props["output_value_wires"]), "json": o.get("networks")})
    elif pl.entity_type == "constant-combinator":
        got = {}
        for sec in ((cb.get("sections") or {}).get("sections") or []):
            for f in sec.get("filters") or []:
                if "name" in f:
                    got[f["name"]] = got.get(f["name"], 0) + f.get("count", 0)
        if props.get("signals"):
            want = dict(props["signals"])
        elif props.get("signal_name") and props.get("role") != "output_anchor" and pl.role != "output_anchor":
            want = {props["signal_name"]: props.get("value", 0)}
        else:
            want = {}
        if {k: v for k, v in want.items()} != got and {k: v for k, v in want.items() if v != 0} != {k: v for k, v in got.items() if v != 0}:
            out.append({"what": "constant sections", "plan": want, "json": got})
    else:
        pw = props.get("property_writes") or {}
        en = pw.get("enable")
        if en and en.get("type") in ("inline_comparison", "inline_bundle_condition", "signal"):
            cc = cb.get("circuit_condition")
            if cc is None:
                out.append({"what": "entity exported without its circuit condition", "plan": en.get("type")})
            elif e["name"] not in ("pump", "offshore-pump", "power-switch") and not cb.get("circuit_enabled"):
                out.append({"what": "entity exported without circuit_enabled"})
    return out


def check_plan(b):
    plan = b.cap.get("plan")
    ents = b.bp["blueprint"].get("entities", [])
    ids = b.cap.get("ids") or []
    by_id = {}
    probs = []
    for idx, e in enumerate(ents):
        if idx < len(ids):
            if ids[idx] in by_id:
                probs.append({"what": "placement exported twice", "id": ids[idx]})
            by_id[ids[idx]] = e
    n = 0
    for pid, pl in plan.entity_placements.items():
        e = by_id.get(pid)
        if e is None:
            probs.append({"what": "placement missing from the export", "id": pid, "type": pl.entity_type})
            continue
        n += 1
        for p in check_plan_entity(pl, e):
            probs.append(dict(p, id=pid, type=pl.entity_type))
    # wires
    num = {i: k + 1 for k, i in enumerate(ids)}
    have = set()
    for w in b.bp["blueprint"].get("wires") or []:
        have.add((w[0], w[1], w[2], w[3]))
        have.add((w[2], w[3], w[0], w[1]))
    nw = 0
    for w in plan.wire_connections:
        if w.source_entity_id not in num or w.sink_entity_id not in num:
            probs.append({"what": "planned wire between unexported entities", "wire": [w.source_entity_id, w.sink_entity_id]})
            continue
        base = 1 if w.wire_color == "red" else 2

        def conn(ent_id, side):
            t = plan.entity_placements[ent_id].entity_type
            if t in ("arithmetic-combinator", "decider-combinator") and side == "output":
                return base + 2
            return base

        key = (num[w.source_entity_id], conn(w.source_entity_id, w.source_side), num[w.sink_entity_id], conn(w.sink_entity_id, w.sink_side))
        nw += 1
        if key not in have:
            probs.append({"what": "planned wire missing from the export", "wire": key, "signal": w.signal_name})
    return probs, n, nw


# ------------------------------------------------------------------ case

def run_case(case):
    prog = case["prog"]
    rng = random.Random(case["pseed"])
    src, _l = lang.to_source(prog, rng)
    base = {"shape": lang.shape_of(prog), "stratum": case["stratum"]}
    mon = {"cli_runs": 0, "plan_entities": 0, "plan_wires": 0}
    refs = {}

    def reference(no_opt, poles):
        key = (no_opt, poles)
        if key not in refs:
            b = driver.compile_source(src, optimize=not no_opt, poles=poles, schedule=("first", 3), keep_objects=True)
            refs[key] = b
        return refs[key]

    b0 = reference(False, None)
    if not b0.ok:
        return dict(base, verdict="vacuous", why="rejected: " + str(b0.error)[:200])
    probs, n, nw = check_plan(b0)
    mon["plan_entities"] += n
    mon["plan_wires"] += nw
    if probs:
        return dict(base, verdict="violated", nontrivial=True, monitors=mon,
                    why="plan completeness: %s" % (probs[0],), witness={"source": src, "problems": probs[:6]})
    tmp = tempfile.mkdtemp(prefix="fverif_c07_")
    evals = 1
    sigs = {}
    nontrivial = False
    sample = None
    try:
        vals = gen.valuations(prog, case["nval"], random.Random(case["vseed"]), small=True)
        for run in case["runs"]:
            ref = reference(run["no_optimize"], run["poles"])
            pr, ftext, outp = run_cli(src, run, tmp)
            mon["cli_runs"] += 1
            evals += 1
            witness = {"source": src, "run": run, "rc": pr.returncode, "stderr": pr.stderr[-600:]}
            if not ref.ok:
                if pr.returncode == 0:
                    return dict(base, verdict="violated", nontrivial=True, monitors=mon, why="CLI accepts what the in-process compile rejects",
                                witness=witness)
                continue
            if pr.returncode != 0:
                return dict(base, verdict="violated", nontrivial=True, monitors=mon,
                            why="CLI run failed (rc=%s) for an accepted program" % pr.returncode, witness=witness)
            if run["out"]:
                if ftext is None:
                    return dict(base, verdict="violated", nontrivial=True, monitors=mon, why="-o file was not written", witness=witness)
                if pr.stdout.strip():
                    return dict(base, verdict="violated", nontrivial=True, monitors=mon,
                                why="stdout not empty although -o was given: %r" % pr.stdout[:120], witness=witness)
                text = ftext
            else:
                text = pr.stdout
                if len([ln for ln in text.strip().splitlines() if ln.strip()]) != 1:
                    return dict(base, verdict="violated", nontrivial=True, monitors=mon,
                                why="stdout carries more than the blueprint (%d lines)" % len(text.strip().splitlines()),
                                witness=dict(witness, stdout_head=text[:300]))
            try:
                bp = decode(text, run["json"])
            except Exception as exn:  # noqa: BLE001
                return dict(base, verdict="violated", nontrivial=True, monitors=mon, why="emitted text does not decode: %r" % (exn,),
                            witness=dict(witness, text_head=text[:200]))
            if "blueprint" not in bp:
                return dict(base, verdict="violated", nontrivial=True, monitors=mon, why="decoded text has no blueprint", witness=witness)
            sig = canon.signature(nofile(bp))
            rsig = canon.signature(nofile(ref.bp))
            if sig["sig"] != rsig["sig"]:
                return dict(base, verdict="violated", nontrivial=True, monitors=mon,
                            why="decoded CLI output is not the circuit the compiler planned (canonical forms differ)",
                            witness=dict(witness, difference=canon.explain_difference(nofile(ref.bp), nofile(bp))))
            if run["name"] and run["name"] not in (bp["blueprint"].get("label") or ""):
                return dict(base, verdict="violated", nontrivial=True, monitors=mon,
                            why="--name %r not in the blueprint label %r" % (run["name"], bp["blueprint"].get("label")), witness=witness)
            key = json.dumps({k: run[k] for k in ("entry", "file", "out", "no_optimize", "poles", "name", "cwd")}, sort_keys=True)
            if key in sigs and sigs[key] != sig["sig"]:
                return dict(base, verdict="violated", nontrivial=True, monitors=mon,
                            why="string and --json forms of the same compilation describe different circuits", witness=witness)
            sigs[key] = sig["sig"]
            # execute the decoded text
            class _B:
                pass

            stub = _B()
            stub.bp, stub.cap = bp, None
            ex = sem.Exec(stub, prog)
            sim = ex.sim("phys")
            has_state = any(s[0] in ("mem",) for s in prog)
            if not has_state:
                for val in vals[:3]:
                    try:
                        it = lang.Interp(prog, val).run()
                    except lang.Unspec:
                        continue
                    for n_ in sim._comb:
                        sim.out[n_] = {}
                    obs = ex.observe(sim, val)
                    if obs["missing_inputs"]:
                        break
                    mm, c, nz = sem.compare_outputs(sem.expected_of(it), obs, skip=set(val))
                    if it.enables:
                        mm += sem.compare_entities(ex, sim, it)[0]
                    if mm:
                        # the same failure in the in-process reference blueprint is not an export problem
                        rex = sem.Exec(ref, prog)
                        rsim = rex.sim("phys")
                        robs = rex.observe(rsim, val)
                        rmm = sem.compare_outputs(sem.expected_of(it), robs, skip=set(val))[0]
                        if not rmm:
                            return dict(base, verdict="violated", nontrivial=True, monitors=mon,
                                        why="executing the decoded text differs from the reference: %s" % (mm[0],),
                                        witness=dict(witness, inputs=val, mismatches=mm[:3]))
            ncomb = len([e for e in bp["blueprint"]["entities"] if (e.get("control_behavior") or {})])
            if ncomb >= 3:
                nontrivial = True
            if sample is None:
                sample = {"source": src[:700], "run": run, "entities": len(bp["blueprint"]["entities"]), "configured": ncomb,
                          "text_head": text.strip()[:60]}
    finally:
        shutil.rmtree(tmp, ignore_errors=True)
    return dict(base, verdict="held", nontrivial=nontrivial, evaluations=evals, monitors=mon, sample=sample)
