"""C01 - scalar expressions compute what the source says, for every input."""
from __future__ import annotations

import random

from .. import gen, lang, sem
from ..lang import ARITH_OPS, CMP_OPS

PROPERTY = "C01"
LEVEL = "exploration"
TIMEOUT = 240
BUDGET = {"quick": 600, "thorough": 3600}
RULE = ("Seeded, stratified random stateless programs (expression DAGs over typed/untyped inputs and int "
        "constants; strata listed under coverage.strata) compiled by the real compiler under the first(seed) "
        "solver schedule and executed in the circuit model for boundary-biased int32 valuations; every "
        "named result's own signal at its output anchor is compared with the reference semantics. A case "
        "is non-trivial when at least one compared result was non-zero for some valuation; distinct = "
        "distinct program shapes (constants and names erased).")
ASSUMPTIONS = [
    "circuit model fverif/fsim.py is a faithful reading of Factorio 2.0 combinator semantics (one tick per combinator, int32 wrap, truncating division, AND before OR in mixed decider rows)",
    "shift amounts outside 0..31, negative exponents and INT_MIN/-1 are unspecified: valuations that reach them are skipped",
    "type asserted only for explicitly typed results; compiler-chosen signals are read by the name the compiler reports on the anchor",
    "layout outcomes explored: first feasible solution of the real CP-SAT model for a per-case seed",
]

F_LITLEFT = "C01-literal-left-comparison"
F_MERGEDUP = "C01-merge-member-reused-by-same-sink"
F_3COL = "C01-more-same-named-sources-than-wire-colours"


# ------------------------------------------------------------------ strata

def _mk(prog, stratum, rng, nval, **kw):
    c = {"stratum": stratum, "prog": prog, "nval": nval, "vseed": rng.randrange(1 << 30),
         "sseed": rng.randrange(1 << 30), "pseed": rng.randrange(1 << 30)}
    c.update(kw)
    return c


def s_op_single(rng, nval):
    types = gen.Types(rng)
    ta, tb = types.fresh(), types.fresh()
    prog = [["input", "a", ta, gen.rand_value(rng, True)], ["input", "b", tb, gen.rand_value(rng, True)]]
    op = rng.choice(ARITH_OPS + CMP_OPS)
    form = rng.choice(["ss", "sc", "cs"])
    if op in ("<<", ">>"):
        form = rng.choice(["sc", "ss_shift"])
    if op == "**":
        form = "sc"
    a, b = ["v", "a"], ["v", "b"]
    if form == "ss":
        l, r = a, b
    elif form == "ss_shift":
        l, r = a, b
    elif form == "sc":
        c = rng.randint(0, 31) if op in ("<<", ">>") else (rng.choice([0, 1, 2, 3, 4, 5, 9, 31]) if op == "**" else gen.rand_value(rng))
        l, r = a, ["n", c]
    else:
        l, r = ["n", gen.rand_value(rng)], b
        if op in CMP_OPS:
            mirror = {"<": ">", ">": "<", "<=": ">=", ">=": "<=", "==": "==", "!=": "!="}
            l, r, op = b, l, mirror[op]
    kind = "c" if op in CMP_OPS else "b"
    e = [kind, op, l, r]
    if rng.random() < 0.5:
        e = ["p", e, types.fresh()]
    prog.append(["sig", "x", e])
    edges = None
    if form == "ss_shift":
        edges = {"b": list(range(0, 32))}
    return _mk(prog, "op_single", rng, nval, edges=edges)


LADDER = [["||"], ["&&"], CMP_OPS, ["OR"], ["XOR"], ["AND"], ["<<", ">>"], ["+", "-"], ["*", "/", "%"], ["**"]]


def _node(op, l, r):
    if op in ("||", "&&"):
        return [op, l, r]
    if op in CMP_OPS:
        return ["c", op, l, r]
    return ["b", op, l, r]


def s_prec_pairs(rng, nval):
    """Two or three operators from neighbouring ladder levels, minimal parentheses."""
    types = gen.Types(rng)
    prog = []
    names = []
    for i in range(4):
        t = types.fresh()
        prog.append(["input", "i%d" % i, t, gen.rand_value(rng, True)])
        names.append(["v", "i%d" % i])
    lv = rng.randrange(len(LADDER) - 1)
    lv2 = min(len(LADDER) - 1, lv + rng.choice([1, 1, 2]))
    ops = [rng.choice(LADDER[lv]), rng.choice(LADDER[lv2])]
    if rng.random() < 0.4:
        ops.append(rng.choice(LADDER[rng.choice([lv, lv2])]))
    rng.shuffle(ops)

    def leafs():
        x = rng.choice(names)
        return x

    def build(ops_):
        if not ops_:
            return leafs()
        k = rng.randrange(len(ops_))
        op = ops_[k]
        l = build(ops_[:k])
        r = build(ops_[k + 1:])
        if op in ("<<", ">>"):
            r = ["n", rng.randint(0, 31)]
        if op == "**":
            r = ["n", rng.choice([0, 1, 2, 3])] if r[0] in ("v", "n") else r
        return _node(op, l, r)

    e = build(ops)
    if rng.random() < 0.3:
        e = _node(rng.choice(["+", "-", "*"]), ["neg", leafs()], e) if rng.random() < 0.5 else e
    prog.append(["sig", "x", ["p", e, types.fresh()] if rng.random() < 0.5 else e])
    return _mk(prog, "prec_pairs", rng, nval, small=True)


def s_power_chain(rng, nval):
    types = gen.Types(rng)
    prog = [["input", "a", types.fresh(), rng.randint(-4, 4)]]
    # a ** 2 ** 2 must be a ** (2 ** 2); -a ** 2 is (-a) ** 2
    e1 = ["b", "**", ["v", "a"], ["b", "**", ["n", rng.choice([1, 2, 3])], ["n", rng.choice([0, 1, 2])]]]
    e2 = ["b", "**", ["neg", ["v", "a"]], ["n", rng.choice([1, 2, 3])]]
    e3 = ["b", "*", ["n", rng.randint(2, 5)], ["b", "**", ["v", "a"], ["n", rng.choice([2, 3])]]]
    prog.append(["sig", "x", ["p", e1, types.fresh()]])
    prog.append(["sig", "y", ["p", e2, types.fresh()]])
    prog.append(["sig", "z", ["p", e3, types.fresh()]])
    return _mk(prog, "power_chain", rng, nval, edges={"a": list(range(-9, 10))})


def s_dag_distinct(rng, nval):
    prog = gen.dag_program(rng, n_in=rng.randint(2, 5), n_stmt=rng.randint(3, 8), depth=rng.randint(1, 3), distinct=True)
    return _mk(prog, "dag_distinct", rng, nval)


def s_dag_same(rng, nval):
    prog = gen.dag_program(rng, n_in=rng.randint(2, 4), n_stmt=rng.randint(2, 6), depth=2, distinct=False)
    return _mk(prog, "dag_same_typed", rng, nval)


def s_two_producers(rng, nval):
    """Same-typed operands from two producers feeding one combinator (two-colour separation)."""
    types = gen.Types(rng)
    t = types.fresh()
    ta, tb = types.fresh(), types.fresh()
    prog = [["input", "a", ta, gen.rand_value(rng, True)], ["input", "b", tb, gen.rand_value(rng, True)]]
    prog.append(["sig", "p", ["p", ["b", rng.choice(["+", "*", "-"]), ["v", "a"], ["n", rng.randint(1, 9)]], t]])
    prog.append(["sig", "q", ["p", ["b", rng.choice(["+", "*", "-"]), ["v", "b"], ["n", rng.randint(1, 9)]], t]])
    op = rng.choice(["-", "*", "/", "%", "AND", "XOR", "<", ">=", "=="])
    e = _node(op, ["v", "p"], ["v", "q"])
    prog.append(["sig", "x", ["p", e, types.fresh()]])
    if rng.random() < 0.5:
        prog.append(["sig", "y", ["p", ["s", ["c", rng.choice(CMP_OPS), ["v", "p"], ["n", rng.randint(-5, 5)]], ["v", "q"]], types.fresh()]])
    return _mk(prog, "two_producers_same_type", rng, nval)


def s_self_both(rng, nval):
    types = gen.Types(rng)
    prog = [["input", "a", types.fresh(), gen.rand_value(rng, True)]]
    op = rng.choice(["+", "-", "*", "/", "%", "AND", "OR", "XOR", "==", "<", ">="])
    prog.append(["sig", "x", ["p", _node(op, ["v", "a"], ["v", "a"]), types.fresh()]])
    prog.append(["sig", "y", _node(rng.choice(["+", "*"]), ["v", "a"], ["v", "a"])])
    return _mk(prog, "same_operand_twice", rng, nval)


def s_wire_merge(rng, nval, repeat=False):
    types = gen.Types(rng)
    t = types.fresh()
    n = rng.randint(2, 5)
    prog = []
    for i in range(n):
        prog.append(["input", "i%d" % i, t, gen.rand_value(rng, True)])
    terms = [["v", "i%d" % i] for i in range(n)]
    if repeat:
        terms.append(["v", "i0"])  # repeated term: must still count twice
    if rng.random() < 0.3:
        terms.append(["t", t, ["n", rng.randint(1, 50)]])
    rng.shuffle(terms)
    e = terms[0]
    for x in terms[1:]:
        e = ["b", "+", e, x]
    prog.append(["sig", "total", e])
    return _mk(prog, "wire_merge_repeated_member" if repeat else "wire_merge", rng, nval)


def s_wire_merge_repeat(rng, nval):
    return s_wire_merge(rng, nval, repeat=True)


def s_logic_chain(rng, nval):
    types = gen.Types(rng)
    k = rng.randint(2, 5)
    prog = []
    for i in range(k):
        prog.append(["input", "i%d" % i, types.fresh(), rng.randint(-3, 12)])
    n = rng.randint(2, 8)
    mode = rng.choice(["and", "or", "mixed", "noncmp"])
    terms = []
    for j in range(n):
        a = ["v", "i%d" % rng.randrange(k)]
        if mode == "noncmp" and rng.random() < 0.6:
            terms.append(a)
            continue
        if rng.random() < 0.3:
            b = ["v", "i%d" % rng.randrange(k)]
        else:
            b = ["n", rng.randint(-3, 12)]
        terms.append(["c", rng.choice(CMP_OPS), a, b])
    e = terms[0]
    for x in terms[1:]:
        op = {"and": "&&", "or": "||"}.get(mode) or rng.choice(["&&", "||"])
        e = [op, e, x]
    if rng.random() < 0.3:
        e = ["!", e]
    prog.append(["sig", "x", ["p", e, types.fresh()] if rng.random() < 0.6 else e])
    edges = {"i%d" % i: list(range(-4, 14)) for i in range(k)}
    return _mk(prog, "logic_chain_" + mode, rng, nval, edges=edges, style={"andor_words": True})


def s_logic_nearbool(rng, nval):
    """&& / || / ! over operands that look like booleans to an optimiser but are not: `cond : k`, products and
    projections of them, integer constants, negations - named or inline."""
    types = gen.Types(rng)
    k = rng.randint(2, 3)
    prog = []
    for i in range(k):
        prog.append(["input", "i%d" % i, types.fresh(), rng.randint(-3, 12)])

    def cmp_():
        return ["c", rng.choice(CMP_OPS), ["v", "i%d" % rng.randrange(k)], ["n", rng.randint(-3, 12)]]

    def near(depth=0):
        form = rng.choice(["sel_k", "sel_k", "sel_v", "cmp", "not", "prod", "proj", "int", "var"])
        if form == "sel_k":
            return ["s", cmp_(), ["n", rng.choice([-1, 2, 5, -7, 0, 1, 100])]]
        if form == "sel_v":
            return ["s", cmp_(), ["v", "i%d" % rng.randrange(k)]]
        if form == "cmp":
            return cmp_()
        if form == "not" and depth < 2:
            return ["!", near(depth + 1)]
        if form == "prod" and depth < 2:
            return ["b", "*", near(depth + 1), near(depth + 1)]
        if form == "proj" and depth < 2:
            return ["p", near(depth + 1), types.fresh()]
        if form == "int":
            return ["n", rng.choice([0, 1, 2, -1])]
        return ["v", "i%d" % rng.randrange(k)]

    named = []
    for j in range(rng.randint(0, 2)):
        nm = "n%d" % j
        prog.append(["sig", nm, ["p", near(), types.fresh()]])
        named.append(nm)
    for j in range(rng.randint(1, 3)):
        a = ["v", rng.choice(named)] if named and rng.random() < 0.5 else near()
        b = ["v", rng.choice(named)] if named and rng.random() < 0.3 else near()
        e = [rng.choice(["&&", "||"]), a, b]
        if rng.random() < 0.3:
            e = [rng.choice(["&&", "||"]), e, near()]
        if rng.random() < 0.2:
            e = ["!", e]
        prog.append(["sig", "x%d" % j, ["p", e, types.fresh()]])
    edges = {"i%d" % i: list(range(-4, 14)) for i in range(k)}
    return _mk(prog, "logic_near_boolean", rng, nval, edges=edges)


def s_commuted(rng, nval, op):
    """`a OP b` next to `b OP a` (and `a OP k` next to `k OP a`) on one output type: shareable only for commutative OP."""
    types = gen.Types(rng)
    small = op in ("**", "<<", ">>")
    lo, hi = (0, 6) if small else (-9, 12)
    prog = [["input", "a", types.fresh(), rng.randint(lo, hi)], ["input", "b", types.fresh(), rng.randint(lo, hi)]]
    t1 = types.fresh()
    k = rng.randint(1, 5)
    items = [["p", ["b", op, ["v", "a"], ["v", "b"]], t1], ["p", ["b", op, ["v", "b"], ["v", "a"]], t1],
             ["p", ["b", op, ["v", "a"], ["n", k]], t1], ["p", ["b", op, ["n", k], ["v", "a"]], t1]]
    if rng.random() < 0.5:
        items.reverse()
    for i, e in enumerate(items):
        prog.append(["sig", "x%d" % i, e])
    # also inside one expression: (a OP b) - (b OP a)
    prog.append(["sig", "d", ["p", ["b", "-", ["b", op, ["v", "a"], ["v", "b"]], ["b", op, ["v", "b"], ["v", "a"]]], types.fresh()]])
    rngs = list(range(lo, hi + 1))
    return _mk(prog, "commuted_operands", rng, nval, edges={"a": rngs, "b": rngs}, small=True)


def s_merge_operand(rng, nval):
    """`(i0 + i1) OP i0`: a wire merge as one operand, one of its members as the other (listed finding)."""
    types = gen.Types(rng)
    t = types.fresh()
    n = rng.randint(2, 3)
    prog = [["input", "i%d" % i, t, rng.randint(-9, 20)] for i in range(n)]
    chain = ["v", "i0"]
    for i in range(1, n):
        chain = ["b", "+", chain, ["v", "i%d" % i]]
    op = rng.choice(["-", "*", "/", "%", "<", ">=", "=="])
    member = ["v", "i%d" % rng.randrange(n)]
    l, r = (chain, member) if rng.random() < 0.7 else (member, chain)
    e = _node(op, l, r)
    prog.append(["sig", "x", ["p", e, types.fresh()]])
    return _mk(prog, "merge_operand_with_own_member", rng, nval)


def s_unary(rng, nval):
    types = gen.Types(rng)
    prog = [["input", "a", types.fresh(), gen.rand_value(rng, True)], ["input", "b", types.fresh(), gen.rand_value(rng, True)]]
    prog.append(["sig", "x", ["p", ["neg", ["b", rng.choice(["+", "*", "-"]), ["v", "a"], ["v", "b"]]], types.fresh()]])
    prog.append(["sig", "y", ["p", ["!", ["v", "a"]], types.fresh()]])
    prog.append(["sig", "z", ["p", ["!", ["c", rng.choice(CMP_OPS), ["v", "a"], ["v", "b"]]], types.fresh()]])
    prog.append(["sig", "w", ["p", ["b", "-", ["neg", ["v", "a"]], ["neg", ["v", "b"]]], types.fresh()]])
    return _mk(prog, "unary", rng, nval, edges={"a": [0, 1, -1], "b": [0, 1, -1]})


def s_proj(rng, nval):
    types = gen.Types(rng)
    ta = types.fresh()
    prog = [["input", "a", ta, gen.rand_value(rng, True)], ["input", "b", types.fresh(), gen.rand_value(rng, True)]]
    t1, t2 = types.fresh(), types.fresh()
    prog.append(["sig", "x", ["p", ["p", ["v", "a"], t1], t2]])
    prog.append(["sig", "y", ["p", ["v", "a"], ta]])  # same-type projection
    prog.append(["sig", "z", ["p", ["b", "+", ["p", ["v", "a"], t1], ["p", ["v", "b"], t1]], types.fresh()]])
    prog.append(["sig", "w", ["b", "+", ["p", ["v", "b"], ["ty", "a"]], ["v", "a"]]])  # .type
    prog.append(["sig", "k", ["t", ["ty", "b"], ["n", rng.randint(1, 99)]]])
    prog.append(["sig", "u", ["b", "*", ["v", "k"], ["v", "b"]]])
    return _mk(prog, "projection_and_dot_type", rng, nval)


def s_sel(rng, nval):
    types = gen.Types(rng)
    prog = [["input", "a", types.fresh(), rng.randint(-5, 15)], ["input", "b", types.fresh(), gen.rand_value(rng, True)],
            ["input", "c", types.fresh(), rng.randint(-5, 15)]]
    thr = rng.randint(-3, 12)
    cond1 = ["c", rng.choice(CMP_OPS), ["v", "a"], ["n", thr]]
    cond2 = ["&&", ["c", rng.choice(CMP_OPS), ["v", "a"], ["n", thr]], ["c", rng.choice(CMP_OPS), ["v", "c"], ["n", rng.randint(-3, 12)]]]
    cond3 = ["||", ["c", rng.choice(CMP_OPS), ["v", "a"], ["v", "c"]], ["c", rng.choice(CMP_OPS), ["v", "c"], ["n", rng.randint(-3, 12)]]]
    prog.append(["sig", "x", ["p", ["s", cond1, ["v", "b"]], types.fresh()]])
    prog.append(["sig", "y", ["p", ["s", cond2, ["n", rng.randint(-50, 50)]], types.fresh()]])
    prog.append(["sig", "z", ["p", ["s", cond3, ["v", "b"]], types.fresh()]])
    prog.append(["sig", "flag", cond1])
    prog.append(["sig", "w", ["p", ["s", ["v", "flag"], ["v", "b"]], types.fresh()]])
    # selection idiom
    prog.append(["sig", "m", ["p", ["b", "+", ["s", ["c", ">", ["v", "a"], ["n", thr]], ["v", "b"]],
                                   ["s", ["c", "<=", ["v", "a"], ["n", thr]], ["v", "c"]]], types.fresh()]])
    # compile-time comparisons (int variable vs literal) inside condition chains, true and false
    prog.insert(0, ["int", "ki", ["n", rng.randint(0, 5)]])
    cc = ["c", rng.choice(CMP_OPS), ["v", "ki"], ["n", rng.randint(0, 5)]]
    sc = ["c", rng.choice(CMP_OPS), ["v", "a"], ["n", thr]]
    op = rng.choice(["&&", "||"])
    prog.append(["sig", "ic", ["p", ["s", [op, cc, sc] if rng.random() < 0.5 else [op, sc, cc], ["v", "b"]], types.fresh()]])
    prog.append(["sig", "il", ["p", [rng.choice(["&&", "||"]), cc, sc], types.fresh()]])
    edges = {"a": list(range(-6, 16)), "c": list(range(-6, 16))}
    return _mk(prog, "cond_value", rng, nval, edges=edges)


def s_const_heavy(rng, nval):
    types = gen.Types(rng)
    prog = [["input", "a", types.fresh(), gen.rand_value(rng, True)]]
    prog.append(["int", "k", ["n", rng.randint(1, 20)]])
    prog.append(["sig", "x", ["p", ["b", "+", ["b", "*", ["v", "a"], ["v", "k"]], ["n", rng.randint(-9, 9)]], types.fresh()]])
    prog.append(["sig", "y", ["p", ["b", "-", ["n", rng.randint(-99, 99)], ["v", "a"]], types.fresh()]])
    prog.append(["sig", "z", ["p", ["b", "/", ["n", rng.randint(50, 999)], ["v", "a"]], types.fresh()]])
    prog.append(["sig", "w", ["p", ["b", "%", ["v", "a"], ["v", "k"]], types.fresh()]])
    prog.append(["sig", "c5", ["t", types.fresh(), ["n", rng.randint(-99, 99)]]])
    prog.append(["sig", "u", ["p", ["b", "+", ["v", "c5"], ["v", "a"]], types.fresh()]])
    return _mk(prog, "constants", rng, nval)


def s_untyped(rng, nval):
    """Untyped inputs and results: compiler-chosen signals (few, so the pool head is not exhausted)."""
    prog = [["input", "a", None, gen.rand_value(rng, True)], ["input", "b", None, gen.rand_value(rng, True)]]
    types = gen.Types(rng)
    prog.append(["sig", "x", ["b", rng.choice(["+", "-", "*"]), ["v", "a"], ["v", "b"]]])
    prog.append(["sig", "y", ["p", ["b", rng.choice(["+", "-", "*", "/"]), ["v", "x"], ["n", rng.randint(1, 9)]], types.fresh()]])
    prog.append(["sig", "z", ["c", rng.choice(CMP_OPS), ["v", "a"], ["v", "b"]]])
    return _mk(prog, "untyped", rng, nval)


def s_literal_left(rng, nval):
    types = gen.Types(rng)
    prog = [["input", "a", types.fresh(), rng.randint(-5, 15)]]
    prog.append(["sig", "x", ["p", ["c", rng.choice(["<", ">", "<=", ">="]), ["n", rng.randint(-3, 12)], ["v", "a"]], types.fresh()]])
    return _mk(prog, "literal_left_comparison", rng, nval, edges={"a": list(range(-6, 16))})


def s_sel_same_typed(rng, nval):
    """`cond : value` where the compared signal and the copied value share one signal type but come from different
    producers (the decider must read each from its own colour), with the literal on either side and int variables."""
    types = gen.Types(rng)
    prog = [["input", "x", types.fresh(), rng.randint(-5, 15)], ["int", "k", ["n", rng.randint(-2, 9)]]]
    prog.append(["sig", "dbl", ["b", rng.choice(["*", "+", "-"]), ["v", "x"], ["n", rng.randint(2, 5)]]])   # inherits x's type
    for j in range(rng.randint(2, 4)):
        lit = rng.choice([["n", rng.randint(-3, 12)], ["v", "k"]])
        op = rng.choice(CMP_OPS)
        subj = rng.choice([["v", "x"], ["v", "x"], ["v", "dbl"]])
        val = ["v", "dbl"] if subj[1] == "x" else ["v", "x"]
        cond = ["c", op, lit, subj] if rng.random() < 0.5 else ["c", op, subj, lit]
        e = ["s", cond, val]
        if rng.random() < 0.3:
            e = ["b", "+", e, ["n", 1]]
        prog.append(["sig", "r%d" % j, ["p", e, types.fresh()]])
    return _mk(prog, "cond_value_same_type_two_producers", rng, nval, edges={"x": list(range(-6, 16))})


def s_logic_chain_same_typed(rng, nval):
    """&& / || chains (folded into one multi-row decider) whose rows compare two DIFFERENT inputs of one signal type:
    every row has to read its own operand from the wire that delivers it."""
    types = gen.Types(rng)
    t = types.fresh()
    prog = [["input", "a", t, rng.randint(-3, 12)], ["input", "b", t, rng.randint(-3, 12)],
            ["input", "c", types.fresh(), rng.randint(-3, 12)]]
    lg = rng.choice(["&&", "||"])
    k1, k2 = rng.randint(-2, 9), rng.randint(-2, 9)
    rows = [["c", rng.choice(CMP_OPS), ["v", "a"], ["n", k1]], ["c", rng.choice(CMP_OPS), ["v", "b"], ["n", k2]]]
    if rng.random() < 0.4:
        rows.append(["c", rng.choice(CMP_OPS), ["v", "c"], rng.choice([["v", "a"], ["n", rng.randint(0, 5)]])])
    rng.shuffle(rows)
    chain = rows[0]
    for r_ in rows[1:]:
        chain = [lg, chain, r_]
    val = rng.choice([["n", rng.randint(2, 9)], ["v", "c"], ["v", "b"]])
    prog.append(["sig", "x", ["p", ["s", chain, val], types.fresh()]])
    if rng.random() < 0.5:
        prog.append(["sig", "y", ["p", chain, types.fresh()]])
    edges = {"a": list(range(-4, 12)), "b": list(range(-4, 12)), "c": list(range(-4, 12))}
    return _mk(prog, "logic_chain_same_typed_rows", rng, nval, edges=edges)


STRATA = [
    (s_logic_chain_same_typed, 3), (s_op_single, 6), (s_prec_pairs, 6), (s_power_chain, 1), (s_dag_distinct, 8), (s_dag_same, 2),
    (s_two_producers, 3), (s_self_both, 1), (s_wire_merge, 2), (s_wire_merge_repeat, 1), (s_merge_operand, 1), (s_logic_chain, 4), (s_logic_nearbool, 3), (s_unary, 1),
    (s_proj, 2), (s_sel, 3), (s_sel_same_typed, 3), (s_const_heavy, 2), (s_untyped, 1), (s_literal_left, 1),
]


def gen_cases(tier, seed):
    n = 360 if tier == "quick" else 6000
    nval = 16 if tier == "quick" else 48
    rng = random.Random(1000003 * seed + 17)
    weights = [w for _f, w in STRATA]
    cases = []
    for i in range(n):
        f = rng.choices([f for f, _w in STRATA], weights)[0]
        sub = random.Random(rng.randrange(1 << 60))
        c = f(sub, nval)
        c["id"] = i
        cases.append(c)
    for op in ["+", "-", "*", "/", "%", "**", "<<", ">>", "AND", "OR", "XOR"]:
        for _rep in range(1 if tier == "quick" else 6):
            c = s_commuted(random.Random(rng.randrange(1 << 60)), nval, op)
            c["id"] = len(cases)
            cases.append(c)
    return cases


# ------------------------------------------------------------------ oracle

def _has_literal_left(prog):
    found = []

    def fn(e):
        if e[0] == "c" and e[2][0] == "n" and e[3][0] != "n":
            found.append(e)

    for s in prog:
        if s[0] == "sig":
            lang.walk_expr(s[2], fn)
    return bool(found)


def _mirror_literal_left(prog):
    import copy

    mirror = {"<": ">", ">": "<", "<=": ">=", ">=": "<=", "==": "==", "!=": "!="}
    p2 = copy.deepcopy(prog)

    def fn(e):
        if e[0] == "c" and e[2][0] == "n" and e[3][0] != "n":
            e[1], e[2], e[3] = mirror[e[1]], e[3], e[2]

    for s in p2:
        if s[0] == "sig":
            lang.walk_expr(s[2], fn)
    return p2


def _plus_terms(e, out):
    if e[0] == "b" and e[1] == "+":
        _plus_terms(e[2], out)
        _plus_terms(e[3], out)
    else:
        out.append(e)


def _dedupe_merge_members(prog, vals):
    """Neutralised form for F_MERGEDUP: every repeated simple term of a `+` chain reads a
    duplicate input holding the same value."""
    import copy

    p2 = copy.deepcopy(prog)
    decl = {s[1]: s for s in p2 if s[0] == "input"}
    dup_of = {}
    changed = False
    for s in p2:
        if s[0] != "sig":
            continue
        terms = []
        _plus_terms(s[2], terms)
        seen = set()
        for t in terms:
            if t[0] == "v" and t[1] in decl:
                if t[1] in seen:
                    new = "%s_dup%d" % (t[1], len(dup_of))
                    dup_of[new] = t[1]
                    t[1] = new
                    changed = True
                else:
                    seen.add(t[1])
    # a merge (`+` chain) as one operand of another operator with one of its members as the other operand
    def visit(e):
        nonlocal changed
        if e[0] in ("b", "c") and e[1] != "+":
            for a, b in ((2, 3), (3, 2)):
                terms = []
                _plus_terms(e[a], terms)
                names = {t_[1] for t_ in terms if t_[0] == "v"}
                if len(terms) >= 2 and e[b][0] == "v" and e[b][1] in names and e[b][1] in decl:
                    new_ = "%s_dup%d" % (e[b][1], len(dup_of))
                    dup_of[new_] = e[b][1]
                    e[b][1] = new_
                    changed = True

    for s_ in p2:
        if s_[0] == "sig":
            lang.walk_expr(s_[2], visit)
    if not changed:
        return None, None
    extra = [["input", new, decl[old][2], decl[old][3]] for new, old in dup_of.items()]
    k = max(i for i, s in enumerate(p2) if s[0] == "input") + 1
    p2 = p2[:k] + extra + p2[k:]
    vals2 = [dict(v, **{new: v[old] for new, old in dup_of.items()}) for v in vals]
    return p2, vals2


def _group_operands(e, out):
    """Operand expressions read by the single combinator that computes e's top node."""
    k = e[0]
    if k == "p":
        _group_operands(e[1], out)
    elif k == "s":
        _chain_operands(e[1], out)
        out.append(e[2])
    elif k in ("&&", "||"):
        _chain_operands(e, out)
    elif k in ("c", "b"):
        out.append(e[2])
        out.append(e[3])


def _chain_operands(c, out):
    if c[0] in ("&&", "||"):
        _chain_operands(c[1], out)
        _chain_operands(c[2], out)
    elif c[0] == "c":
        out.append(c[2])
        out.append(c[3])
    else:
        out.append(c)


def _needs_three_colours(prog, val):
    """Scope of F_3COL: one combinator reads >= 3 distinct same-named sources."""
    it = lang.Interp(prog, val).run()
    for s in prog:
        if s[0] != "sig":
            continue
        found = []

        def visit(e):
            ops = []
            _group_operands(e, ops)
            by_type = {}
            for o in ops:
                if o[0] == "n":
                    continue
                try:
                    v = it.ev(o)
                except Exception:  # noqa: BLE001
                    continue
                if v.kind != "sig":
                    continue
                key = v.type if v.type is not None else ("imp", v.implicit_id)
                by_type.setdefault(key, set()).add(repr(o))
            if any(len(x) >= 3 for x in by_type.values()):
                found.append(e)

        lang.walk_expr(s[2], visit)
        if found:
            return True
    return False


def _attribute(prog, case, vals, res, ex, replay):
    if _has_literal_left(prog):
        p2 = _mirror_literal_left(prog)
        r2 = sem.evaluate_stateless(p2, case, vals)
        if r2["compiled"] and not r2["fails"] and r2["compared"]:
            return F_LITLEFT
    p2, vals2 = _dedupe_merge_members(prog, vals)
    if p2 is not None:
        r2 = sem.evaluate_stateless(p2, case, vals2)
        if r2["compiled"] and not r2["fails"] and r2["compared"]:
            return F_MERGEDUP
    if ex.build.cap and ex.build.cap.get("coloring_ok") is False and _needs_three_colours(prog, vals[0]):
        return F_3COL
    return None


def run_case(case):
    return sem.run_stateless_case(case, attribute=_attribute)
