"""C11 - compile-time arithmetic equals run-time arithmetic."""
from __future__ import annotations

import copy
import random

from .. import gen, lang, monitors, sem
from ..fsim import INT_MAX, INT_MIN, arith, w32

PROPERTY = "C11"
LEVEL = "exploration"
TIMEOUT = 240
BUDGET = {"quick": 600, "thorough": 3600}
REQUIRED_MONITORS = ["fold_calls"]
RULE = ("Seeded random constant expressions over the int32 boundary set (negative dividends/divisors, products, "
        "shifts and powers that overflow, literals in bases 2/8/10/16) placed in every folding position: typed "
        "literal value, int variable, operand of a run-time operator, comparison constant, `cond : value` constant, "
        "function argument, loop-body arithmetic on the iterator, constant behind a projection (IR-level "
        "folding), place coordinate. Oracles: (1) the value observed in the executed blueprint equals the int32 "
        "reference for every valuation; (2) twin const_to_input: replacing one literal of the constant expression "
        "by an input holding the same value never changes an output. A harness-attached monitor on "
        "ConstantFolder.fold_binary_operation / ConstantPropagationOptimizer._fold_arithmetic records every fold "
        "call and compares it with the int32 model (suspects, mechanism labels). Non-trivial: the constant "
        "expression's value differs between Python and int32 semantics or is non-zero.")
ASSUMPTIONS = [
    "int32 model of fverif/fsim.arith: wrap-around, truncating division, dividend-signed remainder, 0 for /0 and %0, arithmetic >>",
    "shift amounts outside 0..31, negative exponents and INT_MIN/-1 are not generated",
    "both optimised and unoptimised builds are exercised (IR-level folding only exists in the former)",
]

F_IRDIV = "C11-ir-level-division-floors"

VALS = [0, 1, -1, 2, -2, 3, -3, 5, 7, -7, 10, -10, 13, 100, -100, 255, 256, 1000, -1000, 65535, 65536, -65536,
        46340, 46341, -46341, 1 << 30, -(1 << 30), INT_MAX, INT_MIN + 1, INT_MAX - 1, 123456789, -987654321]


def cexpr(rng, depth, small=False):
    if depth <= 0 or rng.random() < 0.25:
        v = rng.choice(VALS[:14] if small else VALS)
        return ["n", v]
    k = rng.random()
    if k < 0.08:
        return ["neg", cexpr(rng, depth - 1, small)]
    op = rng.choice(["+", "-", "*", "/", "%", "/", "%", "**", "<<", ">>", "AND", "OR", "XOR"])
    l = cexpr(rng, depth - 1, small)
    if op in ("<<", ">>"):
        r = ["n", rng.randint(0, 31)]
    elif op == "**":
        l = ["n", rng.choice([0, 1, -1, 2, -2, 3, -3, 7, 10, 255, 65536])]
        r = ["n", rng.choice([0, 1, 2, 3, 5, 16, 31, 32])]
    else:
        r = cexpr(rng, depth - 1, small)
    return ["b", op, l, r]


def const_value(e):
    try:
        return lang.Interp([["int", "k", e]]).run().lookup("k").value
    except (lang.Unspec, KeyError):
        return None


def good_cexpr(rng, depth, small=False, lo=None, hi=None):
    for _ in range(50):
        e = cexpr(rng, depth, small)
        v = const_value(e)
        if v is None or _has_int_min_literal(e):
            continue
        if lo is not None and not (lo <= v <= hi):
            continue
        return e, v
    return ["n", 3], 3


def _has_int_min_literal(e):
    found = []
    lang.walk_expr(e, lambda x: found.append(1) if x[0] == "n" and x[1] == INT_MIN else None)
    return bool(found)


def _mk(prog, stratum, rng, nval, **kw):
    c = {"stratum": stratum, "prog": prog, "nval": nval, "vseed": rng.randrange(1 << 30),
         "sseed": rng.randrange(1 << 30), "pseed": rng.randrange(1 << 30), "optimize": rng.random() < 0.7,
         "style": {"bases": True}}
    c.update(kw)
    return c


def s_literal(rng, nval):
    types = gen.Types(rng)
    e, _v = good_cexpr(rng, rng.randint(1, 3))
    prog = [["input", "a", types.fresh(), gen.rand_value(rng, True)],
            ["sig", "x", ["t", types.fresh(), e]],
            ["sig", "y", ["p", ["b", "+", ["v", "x"], ["v", "a"]], types.fresh()]]]
    return _mk(prog, "typed_literal_value", rng, nval)


def s_intvar(rng, nval):
    types = gen.Types(rng)
    e, _v = good_cexpr(rng, rng.randint(1, 3))
    e2, _v2 = good_cexpr(rng, 1)
    prog = [["input", "a", types.fresh(), gen.rand_value(rng, True)],
            ["int", "k", e], ["int", "j", ["b", rng.choice(["+", "-", "*", "/", "%"]), ["v", "k"], e2]],
            ["sig", "x", ["p", ["b", rng.choice(["+", "-", "*", "XOR"]), ["v", "a"], ["v", "k"]], types.fresh()]],
            ["sig", "y", ["t", types.fresh(), ["v", "j"]]]]
    if const_value(prog[2][2] if False else ["n", 0]) is None:
        pass
    return _mk(prog, "int_variable", rng, nval)


def s_operand(rng, nval):
    types = gen.Types(rng)
    e, _v = good_cexpr(rng, rng.randint(1, 3))
    op = rng.choice(["+", "-", "*", "AND", "XOR", "OR"])
    prog = [["input", "a", types.fresh(), gen.rand_value(rng, True)],
            ["sig", "x", ["p", ["b", op, ["v", "a"], e], types.fresh()]]]
    return _mk(prog, "operand", rng, nval, twin=True)


def s_condition(rng, nval):
    types = gen.Types(rng)
    e, v = good_cexpr(rng, rng.randint(1, 2))
    e2, _v2 = good_cexpr(rng, rng.randint(1, 2))
    prog = [["input", "a", types.fresh(), v], ["input", "b", types.fresh(), gen.rand_value(rng, True)],
            ["sig", "x", ["p", ["s", ["c", rng.choice([">", ">=", "<", "==", "!="]), ["v", "a"], e], ["v", "b"]], types.fresh()]],
            ["sig", "y", ["p", ["s", ["c", ">", ["v", "b"], ["n", 0]], e2], types.fresh()]]]
    return _mk(prog, "condition_and_output_constant", rng, nval, edges={"a": [v - 1, v, v + 1], "b": [0, 1, 5, -5]}, twin=True)


def s_funcarg(rng, nval):
    types = gen.Types(rng)
    e, _v = good_cexpr(rng, rng.randint(1, 3))
    t = types.fresh()
    prog = [["input", "a", types.fresh(), gen.rand_value(rng, True)],
            ["func", "f", [["Signal", "s"], ["int", "n"]], [], ["p", ["b", rng.choice(["+", "-", "*"]), ["v", "s"], ["b", "/", ["v", "n"], ["n", rng.choice([2, 3, -2, 7])]]], t]],
            ["sig", "x", ["call", "f", [["v", "a"], e]]]]
    if rng.random() < 0.4:
        # a compile-time int of the caller with the parameter's name and another value: the constant folder must
        # resolve the name to the argument inside the body
        prog.insert(1, ["int", "n", ["n", rng.choice([1000, -77, 12, 4096])]])
        if rng.random() < 0.5:
            # ... or the iterator of a loop around the call
            prog = [prog[0], prog[2], ["for", "n", ["range", 3, 5, None],
                                       [["place", "l", "small-lamp", ["b", "*", ["v", "n"], ["n", 2]], ["n", 20], None],
                                        ["set", "l", "enable", ["c", ">", ["call", "f", [["v", "a"], ["b", "+", e, ["v", "n"]]]], ["n", 0]]]]]]
    return _mk(prog, "function_argument", rng, nval)


def s_loop(rng, nval):
    types = gen.Types(rng)
    K = rng.choice([1073741824, 65536 * 16385, -715827883, 7, -3])
    c = rng.choice([0, 1, -5, 100])
    op = rng.choice(["*", "/", "%", "-"])
    body = [["place", "l", "small-lamp", ["b", "*", ["v", "i"], ["n", 4]], ["n", 20], None],
            ["set", "l", "enable", ["c", ">", ["v", "a"], ["b", "+", ["b", op, ["b", "-", ["v", "i"], ["n", 2]], ["n", K]], ["n", c]]]]]
    prog = [["input", "a", types.fresh(), 0], ["for", "i", ["range", 0, 5, None], body]]
    if rng.random() < 0.4:
        # a body-local int with the name of a top-level int constant: the folder must use the local one in the body
        # (the lamp positions keep using the iterator, so a wrong resolution shows as a wrong threshold, not as
        # overlapping lamps)
        body[1][3][3] = ["b", "+", ["b", op, ["b", "-", ["v", "w"], ["n", 2]], ["n", K]], ["n", c]]
        body.insert(0, ["int", "w", ["b", "+", ["v", "i"], ["n", 0]]])
        prog.insert(rng.choice([1, 2]), ["int", "w", ["n", rng.choice([50, -9, 1000, 7])]])
    edges = {"a": [0, 1, -1, c, c + 1, c - 1, INT_MAX, INT_MIN + 1, K, -K if K != INT_MIN else 0]}
    return _mk(prog, "loop_iterator_arithmetic", rng, nval, edges=edges)


def s_irlevel(rng, nval, op=None, c1=None, shape=None):
    """Constants the AST folder cannot see through (behind a projection, passed as a Signal parameter, result of
    another IR-level fold): folded, if at all, by IR-level constant propagation. All eleven operators."""
    types = gen.Types(rng)
    t1, t2 = types.fresh(), types.fresh()
    op = op or rng.choice(["/", "%", "*", "+", "-", "<<", ">>", ">>", "AND", "OR", "XOR", "**", "/", "%"])
    if c1 is None:
        c1 = rng.choice([-7, -10, 7, 10, -1, -16, -1000, 46341, 65536, -65536, INT_MAX, -INT_MAX, 3])
    c2 = rng.choice([2, 3, -2, -3, 65536, 46341, 7, 31])
    if op in ("<<", ">>"):
        c2 = rng.randint(1, 31)
    if op == "**":
        c1, c2 = (c1 if abs(c1) <= 10 else rng.choice([-3, -2, 2, 3, 7])), rng.choice([0, 1, 2, 3, 5, 16, 31])
    shape = shape or rng.choice(["projected", "projected", "signal_param", "negated", "nested"])
    prog = [["input", "a", types.fresh(), gen.rand_value(rng, True)]]
    if shape == "projected":
        inner = ["b", op, ["p", ["t", t1, ["n", c1]], t2], ["n", c2]]
    elif shape == "signal_param":
        prog.append(["func", "f", [["Signal", "x"], ["int", "k"]], [], ["b", op, ["v", "x"], ["v", "k"]]])
        inner = ["call", "f", [["n", c1], ["n", c2]]]
    elif shape == "negated":
        inner = ["b", op, ["neg", ["p", ["n", -c1], t2]], ["n", c2]]
    else:
        inner = ["b", op, ["b", "-", ["p", ["n", c1 + 10], t2], ["n", 10]], ["n", c2]]
    prog.append(["sig", "x", ["p", ["b", "+", ["v", "a"], inner], types.fresh()]])
    return _mk(prog, "ir_level_folding", rng, nval, optimize=True)


def s_coords(rng, nval):
    types = gen.Types(rng)
    e, v = good_cexpr(rng, 2, small=True, lo=-40, hi=40)
    prog = [["input", "a", types.fresh(), 1],
            ["place", "l", "small-lamp", e, ["n", 20], None],
            ["set", "l", "enable", ["c", ">", ["v", "a"], ["n", 0]]]]
    return _mk(prog, "place_coordinate", rng, nval, edges={"a": [0, 1]})


STRATA = [(s_literal, 4), (s_intvar, 3), (s_operand, 4), (s_condition, 3), (s_funcarg, 2), (s_loop, 2),
          (s_irlevel, 3), (s_coords, 2)]


def gen_cases(tier, seed):
    n = 360 if tier == "quick" else 5000
    nval = 6 if tier == "quick" else 12
    rng = random.Random(11000027 * seed + 31)
    weights = [w for _f, w in STRATA]
    cases = []
    for i in range(n):
        f = rng.choices([f for f, _w in STRATA], weights)[0]
        sub = random.Random(rng.randrange(1 << 60))
        c = f(sub, nval)
        c["id"] = i
        cases.append(c)
    # IR-level folding enumerated: every operator with a negative and a positive left operand, shapes in rotation
    shapes = ["projected", "signal_param", "negated", "nested"]
    k = 0
    for op in ["+", "-", "*", "/", "%", "**", "<<", ">>", "AND", "OR", "XOR"]:
        for c1 in ([-16, 7] if tier == "quick" else [-16, -1000, -7, -1, 7, 46341, 65536]):
            sub = random.Random(rng.randrange(1 << 60))
            c = s_irlevel(sub, nval, op=op, c1=c1, shape=shapes[k % 4])
            k += 1
            c["id"] = len(cases)
            cases.append(c)
    return cases


# ------------------------------------------------------------------ monitors

def worker_init():
    monitors.attach_fold_monitor()


def const_to_input(prog, rng):
    """Twin: one integer literal inside a constant sub-expression of a `sig` statement
    becomes a declared input holding the same value."""
    p2 = copy.deepcopy(prog)
    spots = []

    def visit(e):
        if e[0] == "b":
            for idx in (2, 3):
                if e[idx][0] == "n" and not (e[1] in ("<<", ">>", "**") and idx == 3):
                    spots.append((e, idx))

    for s in p2:
        if s[0] == "sig":
            lang.walk_expr(s[2], visit)
    # only literals that sit inside constant sub-expressions (both operands constant)
    spots = [(e, i) for e, i in spots if const_value(["b", e[1], e[2], e[3]]) is not None and e[2][0] != "v" and e[3][0] != "v"]
    if not spots:
        return None, None
    e, idx = rng.choice(spots)
    val = e[idx][1]
    e[idx] = ["v", "kin"]
    k = max(i for i, s in enumerate(p2) if s[0] == "input") + 1
    p2.insert(k, ["input", "kin", "signal-dot", val])
    return p2, val


def _attribute(prog, case, vals, res, ex, replay):
    if not case.get("optimize", True):
        return None
    fails_all = True
    for val in vals:
        try:
            it = lang.Interp(prog, val, defects=["ir_floor_div"]).run()
            it0 = lang.Interp(prog, val).run()
        except lang.Unspec:
            continue
        if sem.expected_of(it) == sem.expected_of(it0):
            continue
        sim = ex.sim("phys")
        obs = ex.observe(sim, val)
        mm, _c, _nz = sem.compare_outputs(sem.expected_of(it), obs, skip=set(val))
        if mm:
            fails_all = False
            break
    else:
        pass
    # the defect model must explain the failing valuation
    val = res["witness"]["inputs"]
    try:
        it = lang.Interp(prog, val, defects=["ir_floor_div"]).run()
    except lang.Unspec:
        return None
    sim = ex.sim("phys")
    obs = ex.observe(sim, val)
    mm, c, _nz = sem.compare_outputs(sem.expected_of(it), obs, skip=set(val))
    if not mm and c and fails_all:
        return F_IRDIV
    return None


def run_case(case):
    monitors.FOLD_LOG.clear()
    res = sem.run_stateless_case(case, attribute=_attribute)
    calls = len(monitors.FOLD_LOG)
    suspects = [r for r in monitors.FOLD_LOG if r.get("suspect")]
    res.setdefault("monitors", {})
    res["monitors"]["fold_calls"] = calls
    res["monitors"]["fold_suspects"] = len(suspects)
    if suspects:
        res["fold_suspects"] = suspects[:5]
    if res.get("verdict") == "held" and case.get("twin"):
        rng = random.Random(case["vseed"] ^ 77)
        p2, val = const_to_input(case["prog"], rng)
        if p2 is not None:
            vals = gen.valuations(case["prog"], case["nval"], random.Random(case["vseed"]), small=case.get("small", False),
                                  edges=case.get("edges"))
            vals_b = [dict(v, kin=val) for v in vals]
            tw = sem.run_twin_case(case, case["prog"], {}, p2, {}, vals=vals, vals_b=vals_b, reference=False,
                                   label_a="constant", label_b="constant replaced by input")
            res["monitors"]["twin"] = 1
            if tw["verdict"] == "violated":
                tw["monitors"] = res["monitors"]
                return tw
    return res


def summarize(results):
    by_site = {}
    sus = []
    for _c, r in results:
        if not r:
            continue
        for s in r.get("fold_suspects", []) or []:
            if len(sus) < 10:
                sus.append(s)
    return {"fold_suspect_samples": sus}
