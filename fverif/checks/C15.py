"""C15 - calling a function equals substituting its body."""
from __future__ import annotations

import random

from .. import gen, lang, monitors, sem, twins
from ..lang import CMP_OPS

PROPERTY = "C15"
LEVEL = "exploration"
TIMEOUT = 300
BUDGET = {"quick": 600, "thorough": 3600}
REQUIRED_MONITORS = ["inline_calls"]
RULE = ("Programs with functions (int / Signal / Entity parameters, int<->Signal coercion at call sites, locals "
        "shadowing caller names, local memories and places, nested calls up to depth 4, calls in loops, "
        "entity-returning and void functions, 1-5 calls of one function) are compiled by the real compiler next "
        "to their manually inlined twin (parameters bound to the argument expressions, locals renamed apart, "
        "return expression in place); both blueprints are executed for the same valuations and must agree on "
        "every named output, entity condition and the user-entity multiset; the call build is also compared "
        "with the reference semantics. A harness monitor on lower_function_call_inline / lower_mem_decl checks "
        "that the caller's parameter, signal and entity maps are restored after every call and that every "
        "executed Memory declaration gets a fresh id. Non-trivial: a call result was compared non-zero.")
ASSUMPTIONS = [
    "memory cells declared in function bodies are observed from the reset state (no histories here)",
    "Signal arguments passed to int parameters are used only where a run-time value is legal",
]


def _mk(prog, stratum, rng, nval, **kw):
    c = {"stratum": stratum, "prog": prog, "nval": nval, "vseed": rng.randrange(1 << 30),
         "sseed": rng.randrange(1 << 30), "pseed": rng.randrange(1 << 30)}
    c.update(kw)
    return c


def s_scalar(rng, nval):
    types = gen.Types(rng)
    prog = [["input", "a", types.fresh(), gen.rand_value(rng, True)], ["input", "b", types.fresh(), gen.rand_value(rng, True)]]
    t1, t2 = types.fresh(), types.fresh()
    body = [["sig", "loc", ["p", ["b", rng.choice(["+", "*", "-"]), ["v", "s"], ["v", "n"]], t1]]]
    ret = ["p", ["b", rng.choice(["+", "-", "*"]), ["v", "loc"], ["n", rng.randint(1, 9)]], t2]
    prog.append(["func", "f", [["Signal", "s"], ["int", "n"]], body, ret])
    ncall = rng.randint(1, 5)
    for i in range(ncall):
        arg1 = rng.choice([["v", "a"], ["v", "b"], ["n", rng.randint(1, 9)]])       # int -> Signal coercion
        arg2 = rng.choice([["n", rng.randint(1, 9)], ["v", "b"]])                   # Signal -> int coercion
        prog.append(["sig", "r%d" % i, ["p", ["call", "f", [arg1, arg2]], types.fresh()]])
    return _mk(prog, "scalar_function", rng, nval)


def s_untyped_result(rng, nval):
    """Result type follows the actual argument (no projection in the body)."""
    types = gen.Types(rng)
    prog = [["input", "a", types.fresh(), gen.rand_value(rng, True)], ["input", "b", types.fresh(), gen.rand_value(rng, True)]]
    prog.append(["func", "g", [["Signal", "s"], ["int", "n"]], [], ["b", "+", ["b", "*", ["v", "s"], ["n", 2]], ["v", "n"]]])
    prog.append(["sig", "r0", ["call", "g", [["v", "a"], ["n", rng.randint(1, 9)]]]])
    prog.append(["sig", "r1", ["call", "g", [["v", "b"], ["n", rng.randint(1, 9)]]]])
    prog.append(["sig", "r2", ["p", ["call", "g", [["v", "r0"], ["n", 1]]], types.fresh()]])
    return _mk(prog, "argument_typed_result", rng, nval)


def s_shadow(rng, nval):
    types = gen.Types(rng)
    prog = [["input", "a", types.fresh(), gen.rand_value(rng, True)]]
    prog.append(["sig", "loc", ["p", ["b", "+", ["v", "a"], ["n", 100]], types.fresh()]])
    prog.append(["place", "lamp", "small-lamp", ["n", 0], ["n", 20], None])
    body = [["sig", "loc", ["p", ["b", "*", ["v", "s"], ["n", 3]], types.fresh()]]]
    if rng.random() < 0.5:
        body.append(["place", "lamp", "small-lamp", ["v", "x"], ["n", 24], None])
        body.append(["set", "lamp", "enable", ["c", ">", ["v", "loc"], ["n", 5]]])
    prog.append(["func", "f", [["Signal", "s"], ["int", "x"]], body, ["p", ["b", "+", ["v", "loc"], ["n", 1]], types.fresh()]])
    prog.append(["sig", "r", ["call", "f", [["v", "a"], ["n", 4]]]])
    prog.append(["sig", "after", ["p", ["b", "+", ["v", "loc"], ["v", "r"]], types.fresh()]])
    prog.append(["set", "lamp", "enable", ["c", "<", ["v", "a"], ["n", rng.randint(-3, 9)]]])
    return _mk(prog, "callee_locals_shadow_caller_names", rng, nval, edges={"a": list(range(-5, 12))})


def s_entity_param(rng, nval):
    types = gen.Types(rng)
    prog = [["input", "a", types.fresh(), rng.randint(-3, 9)]]
    prog.append(["func", "cfg", [["Entity", "e"], ["Signal", "v"], ["int", "k"]],
                 [["set", "e", "enable", ["c", rng.choice(CMP_OPS), ["v", "v"], ["v", "k"]]]], None])
    for i in range(rng.randint(1, 4)):
        prog.append(["place", "l%d" % i, rng.choice(["small-lamp", "inserter", "transport-belt"]), ["n", 2 * i], ["n", 20], None])
        prog.append(["expr", ["call", "cfg", [["v", "l%d" % i], ["v", "a"], ["n", rng.randint(-3, 9)]]]])
    return _mk(prog, "entity_parameter_void_function", rng, nval, edges={"a": list(range(-5, 12))})


def s_entity_return(rng, nval):
    types = gen.Types(rng)
    prog = [["input", "a", types.fresh(), rng.randint(-3, 9)]]
    prog.append(["func", "mk", [["int", "x"], ["Signal", "v"]],
                 [["place", "l", "small-lamp", ["b", "*", ["v", "x"], ["n", 2]], ["n", 20], None],
                  ["set", "l", "enable", ["c", ">", ["v", "v"], ["v", "x"]]]], ["v", "l"]])
    for i in range(rng.randint(1, 4)):
        prog.append(["ent", "q%d" % i, ["call", "mk", [["n", i + rng.randint(0, 1) * 10], ["v", "a"]]]])
    return _mk(prog, "entity_returning_function", rng, nval, edges={"a": list(range(-5, 25))})


def s_local_memory(rng, nval):
    types = gen.Types(rng)
    prog = [["input", "a", types.fresh(), gen.rand_value(rng, True)], ["input", "b", types.fresh(), gen.rand_value(rng, True)],
            ["input", "en", types.fresh(), 1]]
    t = types.fresh()
    prog.append(["func", "cell", [["Signal", "d"], ["Signal", "e"]],
                 [["mem", "m", t], ["write", "m", ["p", ["v", "d"], t], ["c", ">", ["v", "e"], ["n", 0]]]],
                 ["r", "m"]])
    prog.append(["sig", "c0", ["p", ["call", "cell", [["v", "a"], ["v", "en"]]], types.fresh()]])
    prog.append(["sig", "c1", ["p", ["call", "cell", [["v", "b"], ["v", "en"]]], types.fresh()]])
    return _mk(prog, "local_memory_per_call", rng, nval, edges={"en": [0, 1]}, memory=True)


def s_nested(rng, nval):
    types = gen.Types(rng)
    prog = [["input", "a", types.fresh(), gen.rand_value(rng, True)], ["input", "b", types.fresh(), gen.rand_value(rng, True)]]
    depth = rng.randint(2, 4)
    prev = None
    for d in range(depth):
        t = types.fresh()
        inner = ["v", "s"] if prev is None else ["call", prev, [["v", "s"], ["n", d + 1]]]
        body = [["sig", "loc", ["p", ["b", rng.choice(["+", "*", "-"]), inner, ["v", "n"]], t]]]
        name = "f%d" % d
        prog.append(["func", name, [["Signal", "s"], ["int", "n"]], body, ["p", ["b", "+", ["v", "loc"], ["n", d]], types.fresh()]])
        prev = name
    prog.append(["sig", "r0", ["call", prev, [["v", "a"], ["n", 2]]]])
    if rng.random() < 0.6:
        prog.append(["sig", "r1", ["call", prev, [["v", "b"], ["n", 3]]]])
    return _mk(prog, "nested_calls", rng, nval, small=True)


def s_in_loop(rng, nval):
    types = gen.Types(rng)
    prog = [["input", "a", types.fresh(), rng.randint(-3, 12)]]
    t = types.fresh()
    prog.append(["func", "f", [["Signal", "s"], ["int", "n"]], [["sig", "loc", ["p", ["b", "*", ["v", "s"], ["v", "n"]], t]]],
                 ["b", "+", ["v", "loc"], ["n", 1]]])
    body = [["place", "lamp", "small-lamp", ["b", "*", ["v", "i"], ["n", 2]], ["n", 20], None],
            ["set", "lamp", "enable", ["c", ">", ["call", "f", [["v", "a"], ["v", "i"]]], ["n", rng.randint(0, 20)]]]]
    prog.append(["for", "i", ["range", 0, rng.randint(1, 4), None], body])
    return _mk(prog, "calls_in_loop", rng, nval, edges={"a": list(range(-5, 15))})


def s_int_clash(rng, nval):
    """The callee's int parameter has the name of a caller-visible compile-time integer (top-level `int`, loop
    iterator); the body uses it in all-constant subexpressions (`n * 2`, literal values, coordinates)."""
    types = gen.Types(rng)
    prog = [["input", "a", types.fresh(), rng.randint(-3, 12)]]
    pname = rng.choice(["n", "k", "i"])
    outer_val = rng.randint(5, 9)
    prog.append(["int", pname, ["n", outer_val]])
    t = types.fresh()
    const_sub = rng.choice([["b", "*", ["v", pname], ["n", 2]], ["b", "+", ["v", pname], ["n", 1]],
                            ["b", "-", ["n", 20], ["v", pname]]])
    body = [["sig", "loc", ["p", ["b", rng.choice(["*", "+"]), ["v", "s"], const_sub], t]]]
    if rng.random() < 0.5:
        body.append(["place", "lamp", "small-lamp", ["b", "*", ["v", pname], ["n", 2]], ["n", 22], None])
        body.append(["set", "lamp", "enable", ["c", ">", ["v", "loc"], const_sub]])
    prog.append(["func", "f", [["Signal", "s"], ["int", pname]], body, ["p", ["b", "+", ["v", "loc"], ["n", 1]], types.fresh()]])
    used = set()
    for j in range(rng.randint(1, 3)):
        v = rng.choice([x for x in range(1, 12) if x != outer_val and x not in used])
        used.add(v)
        prog.append(["sig", "r%d" % j, ["call", "f", [["v", "a"], ["n", v]]]])
    if rng.random() < 0.5 and pname != "i":
        # the call inside a loop whose iterator is NOT the parameter's name but whose bound is the outer int
        prog.append(["for", "j", ["range", 12, 14, None],
                     [["sig", "q", ["p", ["call", "f", [["v", "a"], ["v", "j"]]], types.fresh()]],
                      ["place", "ql", "small-lamp", ["b", "*", ["v", "j"], ["n", 2]], ["n", 26], None],
                      ["set", "ql", "enable", ["c", ">", ["v", "q"], ["n", 3]]]]])
    return _mk(prog, "int_parameter_named_like_caller_int", rng, nval, edges={"a": list(range(-5, 15))})


def s_iter_clash(rng, nval):
    """Calls inside `for n in ...` of a function whose int parameter is also called n (argument differs from n)."""
    types = gen.Types(rng)
    prog = [["input", "a", types.fresh(), rng.randint(-3, 12)]]
    t = types.fresh()
    prog.append(["func", "f", [["Signal", "s"], ["int", "n"]],
                 [["sig", "loc", ["p", ["b", "*", ["v", "s"], ["b", "+", ["v", "n"], ["n", 1]]], t]]],
                 ["b", "+", ["v", "loc"], ["b", "*", ["v", "n"], ["n", 2]]]])
    body = [["place", "lamp", "small-lamp", ["b", "*", ["v", "n"], ["n", 2]], ["n", 20], None],
            ["set", "lamp", "enable", ["c", ">", ["call", "f", [["v", "a"], ["b", "+", ["v", "n"], ["n", 10]]]], ["n", rng.randint(0, 40)]]]]
    prog.append(["for", "n", ["range", rng.randint(0, 2), rng.randint(3, 5), None], body])
    return _mk(prog, "int_parameter_named_like_loop_iterator", rng, nval, edges={"a": list(range(-5, 15))})


def s_sigparam_clash(rng, nval):
    """A SIGNAL parameter named like a caller-visible compile-time int; the body combines it with constants."""
    types = gen.Types(rng)
    prog = [["input", "a", types.fresh(), rng.randint(-3, 12)]]
    pname = rng.choice(["n", "k", "lim"])
    prog.append(["int", pname, ["n", rng.randint(3, 9)]])
    prog.append(["int", "other", ["n", rng.randint(1, 5)]])
    body_e = rng.choice([["b", "+", ["v", pname], ["n", 1]], ["b", "*", ["v", pname], ["v", "other"]],
                         ["c", ">", ["v", pname], ["v", "other"]], ["b", "-", ["n", 20], ["v", pname]]])
    prog.append(["func", "f", [["Signal", pname]], [], body_e])
    prog.append(["sig", "r0", ["p", ["call", "f", [["v", "a"]]], types.fresh()]])
    if rng.random() < 0.5:
        prog.append(["for", "j", ["range", 0, 2, None],
                     [["place", "ql", "small-lamp", ["b", "*", ["v", "j"], ["n", 2]], ["n", 26], None],
                      ["set", "ql", "enable", ["c", ">", ["call", "f", [["b", "+", ["v", "a"], ["v", "j"]]]], ["n", 3]]]]])
    return _mk(prog, "signal_parameter_named_like_caller_int", rng, nval, edges={"a": list(range(-5, 15))})


def s_param_shadowed_by_iterator(rng, nval):
    """A loop INSIDE a function whose iterator has the name of one of the function's parameters."""
    types = gen.Types(rng)
    prog = [["input", "a", types.fresh(), rng.randint(-3, 12)]]
    ptype = rng.choice(["Signal", "int"])
    t = types.fresh()
    body = [["sig", "before", ["p", ["b", "+", ["v", "s"], ["v", "i"]], t]],
            ["for", "i", ["range", rng.randint(0, 1), rng.randint(2, 4), None],
             [["place", "lamp", "small-lamp", ["b", "*", ["v", "i"], ["n", 2]], ["n", 20], None],
              ["set", "lamp", "enable", ["c", ">", ["v", "s"], ["b", "*", ["v", "i"], ["n", 3]]]]]]]
    prog.append(["func", "f", [["Signal", "s"], [ptype, "i"]], body, ["p", ["b", "+", ["v", "before"], ["v", "i"]], types.fresh()]])
    arg = ["n", rng.randint(20, 30)] if ptype == "int" or rng.random() < 0.5 else ["v", "a"]
    prog.append(["sig", "r0", ["call", "f", [["v", "a"], arg]]])
    return _mk(prog, "parameter_shadowed_by_loop_iterator", rng, nval, edges={"a": list(range(-5, 15))})


def s_param_projected(rng, nval):
    """The body projects a Signal parameter and uses the parameter again; the argument is a computed expression."""
    types = gen.Types(rng)
    prog = [["input", "a", types.fresh(), rng.randint(-3, 12)], ["input", "b", types.fresh(), rng.randint(-3, 12)]]
    t = types.fresh()
    body = [["sig", "p", ["p", ["v", "x"], t]]]
    ret = rng.choice([["b", "+", ["v", "p"], ["v", "x"]], ["b", "*", ["v", "x"], ["v", "p"]],
                      ["b", "-", ["p", ["v", "x"], types.fresh()], ["v", "x"]]])
    prog.append(["func", "g", [["Signal", "x"]], body, ["p", ret, types.fresh()]])
    arg = rng.choice([["b", "*", ["v", "a"], ["n", rng.randint(2, 5)]], ["b", "+", ["v", "a"], ["v", "b"]], ["v", "a"]])
    prog.append(["sig", "r0", ["call", "g", [arg]]])
    if rng.random() < 0.5:
        prog.append(["sig", "r1", ["call", "g", [["b", "-", ["v", "b"], ["n", 1]]]]])
    return _mk(prog, "parameter_projected_and_reused", rng, nval, edges={"a": list(range(-5, 15))})


def s_returned_local_read_in_callee(rng, nval):
    """The callee's returned local is also read inside the callee (entity condition, a second local); the call's
    result is projected by the caller."""
    types = gen.Types(rng)
    prog = [["input", "a", types.fresh(), rng.randint(-3, 12)]]
    prog.append(["place", "lamp", "small-lamp", ["n", 0], ["n", 20], None])
    body = [["sig", "loc", ["b", rng.choice(["*", "+", "-"]), ["v", "s"], ["n", rng.randint(2, 5)]]]]
    if rng.random() < 0.5:
        body.append(["set", "e", "enable", ["c", rng.choice(CMP_OPS), ["v", "loc"], ["n", rng.randint(-3, 20)]]])
    else:
        body.append(["sig", "other", ["b", "+", ["v", "loc"], ["n", rng.randint(1, 4)]]])
        body.append(["set", "e", "enable", ["c", rng.choice(CMP_OPS), ["v", "other"], ["n", rng.randint(-3, 20)]]])
    prog.append(["func", "f", [["Signal", "s"], ["Entity", "e"]], body, ["v", "loc"]])
    prog.append(["sig", "y", ["p", ["call", "f", [["v", "a"], ["v", "lamp"]]], types.fresh()]])
    return _mk(prog, "returned_local_read_in_callee", rng, nval, edges={"a": list(range(-5, 15))})


def s_local_memory_named_like_callers(rng, nval):
    """A memory declared in the callee has the name (and another type) of a memory of the caller."""
    types = gen.Types(rng)
    prog = [["input", "a", types.fresh(), gen.rand_value(rng, True)], ["input", "b", types.fresh(), gen.rand_value(rng, True)],
            ["input", "en", types.fresh(), 1]]
    t1, t2 = types.fresh(), types.fresh()
    fn = ["func", "cell", [["Signal", "d"], ["Signal", "e"]],
          [["mem", "m", t2], ["write", "m", ["p", ["v", "d"], t2], ["c", ">", ["v", "e"], ["n", 0]]]], ["r", "m"]]
    decl = [["mem", "m", t1]]
    wr = [["write", "m", ["p", ["v", "a"], t1], ["c", ">", ["v", "en"], ["n", 0]]]]
    call = [["sig", "c0", ["p", ["call", "cell", [["v", "b"], ["v", "en"]]], types.fresh()]]]
    rd = [["sig", "after", ["p", ["b", "+", ["r", "m"], ["n", 100]], types.fresh()]]]
    order = rng.choice(["fdwcr", "dfwcr", "dwfcr", "fdcwr", "dfcrw"])
    parts = {"f": [fn], "d": decl, "w": wr, "c": call, "r": rd}
    for ch in order:
        prog += parts[ch]
    return _mk(prog, "local_memory_named_like_callers", rng, nval, edges={"en": [0, 1]}, memory=True)


def s_latch_in_function(rng, nval):
    """A latch written inside a function whose set/reset compare a Signal parameter; the caller has a different
    signal under the parameter's name (declared before the call) and passes another one."""
    types = gen.Types(rng)
    prog = [["input", "lv", types.fresh(), rng.randint(0, 9)], ["input", "a", types.fresh(), rng.randint(0, 9)]]
    t = types.fresh()
    lo, hi = rng.randint(0, 3), rng.randint(4, 8)
    val = rng.choice([["n", 1], ["n", rng.randint(2, 9)]])
    body = [["mem", "m", t],
            ["latch", "m", val, ["c", "<", ["v", "lv"], ["n", lo]], ["c", ">=", ["v", "lv"], ["n", hi]], rng.choice(["sr", "rs"])]]
    prog.append(["func", "lt", [["Signal", "lv"]], body, ["r", "m"]])
    prog.append(["sig", "q", ["p", ["call", "lt", [["v", "a"]]], types.fresh()]])
    if rng.random() < 0.5:
        prog.append(["sig", "other", ["p", ["b", "+", ["v", "lv"], ["n", 1]], types.fresh()]])
    return _mk(prog, "latch_in_function_param_named_like_caller_signal", rng, nval,
               edges={"a": list(range(-1, 10)), "lv": list(range(-1, 10))}, memory=True)


def s_args_named_like_params(rng, nval):
    """The caller's variables have the names of the callee's parameters and are passed in another order (also
    through a nested call): every argument is evaluated in the caller's scope before any parameter is bound."""
    types = gen.Types(rng)
    prog = [["input", "a", types.fresh(), rng.randint(-3, 12)], ["input", "b", types.fresh(), rng.randint(-3, 12)],
            ["input", "c", types.fresh(), rng.randint(-3, 12)]]
    op1, op2 = rng.choice(["-", "+", "*"]), rng.choice(["-", "*"])
    prog.append(["func", "f", [["Signal", "a"], ["Signal", "b"]], [],
                 ["p", ["b", op1, ["v", "a"], ["b", op2, ["v", "b"], ["n", rng.randint(2, 4)]]], types.fresh()]])
    if rng.random() < 0.5:
        prog.append(["func", "g", [["Signal", "a"], ["int", "b"], ["Signal", "c"]], [],
                     ["p", ["b", "+", ["b", "*", ["v", "a"], ["v", "b"]], ["v", "c"]], types.fresh()]])
        prog.append(["sig", "r2", ["call", "g", [["v", "c"], ["n", rng.randint(2, 5)], ["v", "a"]]]])
    calls = [["call", "f", [["v", "b"], ["v", "a"]]],
             ["call", "f", [["v", "c"], ["call", "f", [["v", "a"], ["v", "b"]]]]],
             ["call", "f", [["v", "c"], ["b", "+", ["v", "a"], ["n", 1]]]]]
    rng.shuffle(calls)
    for i, c in enumerate(calls[:rng.randint(1, 3)]):
        prog.append(["sig", "r%d" % (10 + i), c])
    return _mk(prog, "arguments_named_like_parameters", rng, nval, edges={"a": list(range(-5, 15))})


def s_nested_param_vs_inner_local(rng, nval):
    """A function called from another function declares a local with the name of the OUTER function's parameter."""
    types = gen.Types(rng)
    prog = [["input", "a", types.fresh(), rng.randint(-3, 12)]]
    k1, k2 = rng.randint(2, 5), rng.randint(1, 9)
    prog.append(["func", "inner", [["Signal", "s"]], [["sig", "x", ["b", "*", ["v", "s"], ["n", k1]]]],
                 ["b", "+", ["v", "x"], ["n", k2]]])
    arg = rng.choice([["b", "+", ["v", "x"], ["n", rng.randint(1, 9)]], ["v", "x"], ["b", "*", ["v", "x"], ["n", 3]]])
    body = []
    if rng.random() < 0.5:
        body.append(["sig", "y", ["b", "-", ["v", "x"], ["n", 1]]])
        ret = ["b", "+", ["call", "inner", [arg]], ["v", "y"]]
    else:
        ret = ["call", "inner", [arg]]
    prog.append(["func", "outer", [["Signal", "x"]], body, ret])
    prog.append(["sig", "r", ["p", ["call", "outer", [["v", "a"]]], types.fresh()]])
    return _mk(prog, "nested_call_inner_local_named_like_outer_parameter", rng, nval, edges={"a": list(range(-5, 15))})


STRATA = [(s_scalar, 4), (s_untyped_result, 2), (s_shadow, 3), (s_entity_param, 2), (s_entity_return, 2),
          (s_local_memory, 2), (s_nested, 3), (s_in_loop, 2), (s_int_clash, 3), (s_iter_clash, 2), (s_sigparam_clash, 2), (s_param_shadowed_by_iterator, 2), (s_param_projected, 2), (s_returned_local_read_in_callee, 2), (s_local_memory_named_like_callers, 2), (s_latch_in_function, 2), (s_args_named_like_params, 3), (s_nested_param_vs_inner_local, 2)]


def gen_cases(tier, seed):
    n = 220 if tier == "quick" else 2000
    nval = 8 if tier == "quick" else 16
    rng = random.Random(15000053 * seed + 43)
    weights = [w for _f, w in STRATA]
    cases = []
    for i in range(n):
        f = rng.choices([f for f, _w in STRATA], weights)[0]
        sub = random.Random(rng.randrange(1 << 60))
        c = f(sub, nval)
        c["id"] = i
        cases.append(c)
    return cases


def worker_init():
    monitors.attach_inline_monitor()


def run_case(case):
    monitors.INLINE_LOG.clear()
    prog = case["prog"]
    twin = twins.inline_calls(prog)
    if any(s[0] == "for" for s in twin):
        twin = twins.unroll_loops(twin) if False else twin
    res = sem.run_twin_case_relative(case, prog, {}, twin, {}, label_a="calls", label_b="inlined",
                            reference=not case.get("memory"))
    res.setdefault("monitors", {})
    res["monitors"]["inline_calls"] = len([r for r in monitors.INLINE_LOG if "func" in r])
    res["monitors"]["mem_decls"] = len([r for r in monitors.INLINE_LOG if "memdecl" in r])
    sus = [r for r in monitors.INLINE_LOG if r.get("suspect")]
    if sus and res.get("verdict") == "held":
        res["monitor_suspects"] = sus[:3]
        res = dict(res, verdict="violated", nontrivial=True,
                   why="inliner state not restored: %s" % (sus[0].get("problems"),),
                   witness={"monitor": sus[:3], "source": lang.to_source(prog)[0]})
    return res
