"""C16 - a for loop equals its unrolling."""
from __future__ import annotations

import random

from .. import gen, lang, monitors, sem, twins
from ..lang import CMP_OPS

PROPERTY = "C16"
LEVEL = "exploration"
TIMEOUT = 300
BUDGET = {"quick": 600, "thorough": 3600}
REQUIRED_MONITORS = ["loop_expansions"]
RULE = ("Programs with for loops (every (start, stop, step) triple of a box incl. negatives, empty ranges and "
        "non-dividing steps, ascending ranges without step, bounds through int variables, list iterators incl. "
        "empty and negative values, nesting <= 3; bodies use the iterator in coordinates, arithmetic, comparisons "
        "and signal-literal values, reuse local names across iterations, declare memories and call functions) are "
        "compiled by the real compiler next to their manually unrolled twin; both blueprints are executed for the "
        "same valuations and must agree on every named output, every entity condition and the multiset of "
        "user-placed entities; the loop build is also compared with the reference semantics. A harness monitor on "
        "ForStmt.get_iteration_values checks every expansion against the documented sequence. The quick tier "
        "enumerates the whole triple box once per run in addition to random programs. Non-trivial: at least one "
        "iteration executed and compared.")
ASSUMPTIONS = [
    "descending ranges without an explicit step are not generated (documented default and implementation differ; the property does not fix it)",
    "list iterators with repeated values are used only with bodies that place nothing (two entities on one tile is a different error)",
    "memory cells declared in a loop body are observed from the reset state (no histories here)",
]


def _mk(prog, stratum, rng, nval, **kw):
    c = {"stratum": stratum, "prog": prog, "nval": nval, "vseed": rng.randrange(1 << 30),
         "sseed": rng.randrange(1 << 30), "pseed": rng.randrange(1 << 30)}
    c.update(kw)
    return c


def body_for(rng, types, it_expr_x, it_expr_y, it, kind, x="x"):
    """Loop body placing one lamp per iteration at an iterator-dependent tile."""
    body = []
    thr = ["b", rng.choice(["+", "*", "-"]), ["v", it], ["n", rng.randint(1, 5)]]
    if kind == "cmp":
        body.append(["place", "lamp", "small-lamp", it_expr_x, it_expr_y, None])
        body.append(["set", "lamp", "enable", ["c", rng.choice(CMP_OPS), ["v", x], thr]])
    elif kind == "local":
        t = types.fresh()
        body.append(["sig", "tmp", ["p", ["b", rng.choice(["+", "*"]), ["v", x], thr], t]])
        body.append(["place", "lamp", "small-lamp", it_expr_x, it_expr_y, None])
        body.append(["set", "lamp", "enable", ["c", ">", ["v", "tmp"], ["n", rng.randint(0, 20)]]])
    elif kind == "literal":
        t = types.fresh()
        body.append(["sig", "kv", ["t", t, ["b", "*", ["v", it], ["n", rng.randint(2, 7)]]]])
        body.append(["place", "lamp", "small-lamp", it_expr_x, it_expr_y, None])
        body.append(["set", "lamp", "enable", ["c", ">", ["b", "+", ["v", x], ["v", "kv"]], ["n", rng.randint(0, 20)]]])
    elif kind == "intvar":
        body.append(["int", "kk", ["b", "*", ["v", it], ["n", 3]]])
        body.append(["place", "lamp", "small-lamp", it_expr_x, it_expr_y, None])
        body.append(["set", "lamp", "enable", ["c", ">=", ["v", x], ["v", "kk"]]])
    elif kind == "memory":
        t = types.fresh()
        body.append(["mem", "m", t])
        body.append(["write", "m", ["p", ["b", "+", ["v", x], ["v", it]], t], ["c", ">", ["v", "en"], ["v", it]]])
        body.append(["place", "lamp", "small-lamp", it_expr_x, it_expr_y, None])
        body.append(["set", "lamp", "enable", ["c", ">", ["r", "m"], ["n", 0]]])
    elif kind == "itercond":
        # a condition over compile-time ints only (iterator vs literal / int variable) in front of a RUN-TIME value:
        # true in some iterations, false in others
        t = types.fresh()
        k = rng.randint(-1, 3)
        cond = ["c", rng.choice(CMP_OPS), ["v", it], ["n", k]] if rng.random() < 0.6 else ["c", rng.choice(CMP_OPS), ["n", k], ["v", it]]
        if rng.random() < 0.4:
            cond = [rng.choice(["&&", "||"]), cond, ["c", ">", ["v", x], ["n", rng.randint(-3, 6)]]]
        body.append(["sig", "g", ["p", ["s", cond, ["b", "*", ["v", x], ["n", rng.randint(2, 5)]]], t]])
        body.append(["place", "lamp", "small-lamp", it_expr_x, it_expr_y, None])
        body.append(["set", "lamp", "enable", ["c", ">", ["v", "g"], ["n", rng.randint(0, 20)]]])
    elif kind == "iterproj":
        # the bare iterator projected onto a signal type (a constant signal that differs per iteration)
        t = types.fresh()
        e_ = ["p", ["v", it], t] if rng.random() < 0.7 else ["p", ["p", ["v", it], types.fresh()], t]
        body.append(["sig", "xq", e_])
        body.append(["place", "lamp", "small-lamp", it_expr_x, it_expr_y, None])
        body.append(["set", "lamp", "enable", ["c", rng.choice([">=", "<", "=="]), ["v", "xq"], ["n", rng.randint(0, 4)]]])
    elif kind == "call":
        body.append(["place", "lamp", "small-lamp", it_expr_x, it_expr_y, None])
        body.append(["set", "lamp", "enable", ["c", ">", ["call", "f", [["v", x], ["v", it]]], ["n", rng.randint(0, 20)]]])
    return body


def make_loop_prog(rng, rng_spec, kind, nest=1, bounds_via_vars=False):
    types = gen.Types(rng)
    prog = [["input", "x", types.fresh(), rng.randint(-5, 20)]]
    if kind == "memory":
        prog.append(["input", "en", types.fresh(), rng.randint(0, 5)])
    if kind == "call":
        t = types.fresh()
        prog.append(["func", "f", [["Signal", "s"], ["int", "n"]], [["sig", "loc", ["p", ["b", "*", ["v", "s"], ["n", 2]], t]]],
                     ["b", "+", ["v", "loc"], ["v", "n"]]])
    if bounds_via_vars and rng_spec[0] == "range":
        a, b, st = rng_spec[1], rng_spec[2], rng_spec[3]
        prog.append(["int", "lo", ["n", a]])
        prog.append(["int", "hi", ["n", b]])
        rng_spec = ["range", "lo", "hi", st]
    shadow = kind in ("local", "literal", "intvar") and rng.random() < 0.4
    if shadow:
        # an outer name that the loop body declares again (shadows); it is read after the loop
        if kind == "intvar":
            prog.append(["int", "kk", ["n", rng.randint(30, 40)]])
        else:
            prog.append(["sig", "tmp" if kind == "local" else "kv", ["p", ["b", "+", ["v", "x"], ["n", 100]], types.fresh()]])
    if nest == 1:
        body = body_for(rng, types, ["b", "*", ["v", "i"], ["n", 2]], ["n", 20], "i", kind)
        prog.append(["for", "i", rng_spec, body])
    elif nest == 2:
        inner = body_for(rng, types, ["b", "*", ["v", "i"], ["n", 2]], ["b", "+", ["n", 20], ["b", "*", ["v", "j"], ["n", 2]]], "j", kind)
        prog.append(["for", "i", rng_spec, [["for", "j", ["range", 0, rng.randint(0, 3), None], inner]]])
    else:
        inner = body_for(rng, types, ["b", "+", ["b", "*", ["v", "i"], ["n", 8]], ["b", "*", ["v", "k"], ["n", 2]]],
                         ["b", "+", ["n", 20], ["b", "*", ["v", "j"], ["n", 2]]], "k", kind)
        prog.append(["for", "i", rng_spec,
                     [["for", "j", ["list", rng.sample([0, 1, 2, 3], k=rng.randint(0, 3))],
                       [["for", "k", ["range", 0, rng.randint(1, 3), None], inner]]]]])
    if nest == 1 and rng.random() < 0.3:
        # a top-level int constant with the iterator's name, declared before or after the loop: inside the body the
        # name is the iterator, outside it is the constant
        decl = ["int", "i", ["n", rng.choice([6, 50, -9, 1000])]]
        pos = next(k for k, s_ in enumerate(prog) if s_[0] == "for")
        if rng.random() < 0.6:
            prog.insert(pos, decl)
        else:
            prog.append(decl)
        prog.append(["sig", "afteri", ["p", ["b", "+", ["v", "x"], ["b", "*", ["v", "i"], ["n", 2]]], types.fresh()]])
    if shadow:
        outer = {"local": ["v", "tmp"], "literal": ["v", "kv"], "intvar": ["v", "kk"]}[kind]
        prog.append(["sig", "after", ["p", ["b", "+", ["v", "x"], outer] if kind == "intvar" else ["b", "+", outer, ["n", 1]], types.fresh()]])
        return prog
    # something after the loop that reuses a body-local name at top level
    prog.append(["sig", "tmp", ["p", ["b", "+", ["v", "x"], ["n", 1]], types.fresh()]])
    return prog


KINDS = ["cmp", "local", "literal", "intvar", "memory", "call", "itercond", "itercond", "iterproj"]


def gen_cases(tier, seed):
    rng = random.Random(16000057 * seed + 41)
    cases = []
    nval = 6 if tier == "quick" else 12
    # the whole box of triples (explicit step) + ascending ranges without step
    box = []
    for a in range(-6, 7):
        for b in range(-6, 7):
            for st in [-4, -3, -2, -1, 1, 2, 3, 4]:
                box.append(["range", a, b, st])
            if a <= b:
                box.append(["range", a, b, None])
    rng.shuffle(box)
    take = 160 if tier == "quick" else len(box)
    for spec in box[:take]:
        sub = random.Random(rng.randrange(1 << 60))
        prog = make_loop_prog(sub, spec, "cmp", 1, bounds_via_vars=sub.random() < 0.25)
        cases.append(_mk(prog, "triple_box", sub, nval, edges={"x": list(range(-12, 24))}))
    n = 140 if tier == "quick" else 1500
    for _ in range(n):
        sub = random.Random(rng.randrange(1 << 60))
        kind = sub.choice(KINDS)
        nest = sub.choice([1, 1, 2, 3])
        if sub.random() < 0.35:
            vals = sub.sample(list(range(-5, 9)), k=sub.randint(0, 5))
            spec = ["list", vals]
        else:
            a = sub.randint(-4, 4)
            st = sub.choice([1, 2, 3, -1, -2, None])
            ln = sub.randint(0, 5)
            if st is None:
                spec = ["range", a, a + ln, None]
            else:
                spec = ["range", a, a + st * ln + (sub.choice([0, 1]) if st > 0 else sub.choice([0, -1])), st]
        prog = make_loop_prog(sub, spec, kind, nest, bounds_via_vars=sub.random() < 0.3)
        # a name declared at top level AND in the loop body labels two things: the reference is compared through
        # `after` (which reads the outer one), not through the ambiguous label
        cases.append(_mk(prog, "body_%s_nest%d" % (kind, nest), sub, nval,
                         edges={"x": list(range(-12, 40)), "en": [0, 1, 2, 3, 6]}, memory=(kind == "memory"),
                         skip_names=["tmp", "kv", "kk"] if any(s_[0] == "sig" and s_[1] == "after" for s_ in prog) else []))
    for i, c in enumerate(cases):
        c["id"] = i
    return cases


def worker_init():
    monitors.attach_loop_monitor()


def run_case(case):
    monitors.LOOP_LOG.clear()
    prog = case["prog"]
    twin = twins.unroll_loops(prog)
    res = sem.run_twin_case_relative(case, prog, {}, twin, {}, label_a="loop", label_b="unrolled",
                            reference=not case.get("memory"))
    res.setdefault("monitors", {})
    res["monitors"]["loop_expansions"] = len(monitors.LOOP_LOG)
    sus = [r for r in monitors.LOOP_LOG if r.get("suspect")]
    if sus:
        res = dict(res, verdict="violated", nontrivial=True,
                   why="loop expansion differs from the documented sequence: %s" % (sus[0],),
                   witness={"expansion": sus[0], "source": lang.to_source(prog)[0]})
    if res.get("verdict") == "held":
        n_iter = len(lang.Interp(prog).run().entities)
        res["nontrivial"] = n_iter > 0
    return res
