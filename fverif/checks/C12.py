"""C12 - independent computations do not interfere."""
from __future__ import annotations

import random
import re

from .. import biggen, fsim, gen, lang, protos, sem, twins
from . import C01, C02, C03, C06

PROPERTY = "C12"
LEVEL = "exploration"
TIMEOUT = 600
BUDGET = {"quick": 600, "thorough": 3600}
RULE = ("Pairs (and triples) of generated programs P, Q with disjoint variable / memory / entity names but "
        "deliberately overlapping explicit signal types and constants, user entities in separate tile ranges, are "
        "compiled alone and together (statements interleaved in three random order-preserving ways) by the real "
        "compiler under relay-heavy first(seed) schedules and pole options. For every valuation the outputs and "
        "entity conditions of P (and of Q) in the joint blueprint must equal those of P (Q) compiled alone; and, on "
        "the joint blueprint, no combinator or entity owned by one program (ownership from the entity's description "
        "or tile) may read a network that carries a non-zero signal emitted by an entity owned by the other. "
        "evaluations = executed valuations over all builds; non-trivial = some compared output non-zero.")
ASSUMPTIONS = [
    "ownership of a blueprint entity is decided from the variable names in its description (names are prefixed per program) or, for user entities, from its tile",
    "failures that the physical/logical split attributes to the listed transitive-merge defect inside one program (present in the alone build as well) are not cross-talk",
]


def prefixed(prog, pre):
    return twins.rename_all(prog, "_" + pre)


def retype(prog, mapping):
    """Force overlapping explicit signal names between the two programs."""
    import copy
    import json

    s = json.dumps(prog)
    for a, b in mapping.items():
        s = s.replace('"%s"' % a, '"%s"' % b)
    return json.loads(s)


def shift_places(prog, dy):
    import copy

    p2 = copy.deepcopy(prog)
    for s in p2:
        if s[0] == "place" and s[4][0] == "n":
            s[4] = ["n", s[4][1] + dy]
        if s[0] == "place" and s[3][0] == "n":
            s[3] = ["n", s[3][1]]
    return p2


def far_merge(rng, nval):
    """A wire merge (bundle composition or same-typed addition) wired straight to sinks beyond the 9-tile wire span."""
    p = C06.P(rng)
    kind = rng.choice(["bundle", "sum"])
    if kind == "bundle":
        ms = [p.inp() for _ in range(rng.randint(2, 3))]
        p.prog.append(["bun", "b", ["B", [["v", m] for m in ms]]])
        for _ in range(rng.randint(1, 2)):
            p.enable(p.place("small-lamp"), [rng.choice(["any", "all"]), rng.choice(lang.CMP_OPS), ["v", "b"], ["n", rng.randint(-3, 10)]])
    else:
        t = p.types.fresh()
        ms = []
        for _ in range(rng.randint(2, 3)):
            nm = "i%d" % len(ms)
            p.prog.append(["input", nm, t, rng.randint(-5, 12)])
            p.edges[nm] = list(range(-5, 13))
            ms.append(nm)
        e = ["v", ms[0]]
        for m in ms[1:]:
            e = ["b", "+", e, ["v", m]]
        p.prog.append(["sig", "s", e])
        for _ in range(rng.randint(1, 2)):
            p.enable(p.place("small-lamp"), ["c", rng.choice(lang.CMP_OPS), ["v", "s"], ["n", rng.randint(-3, 20)]])
    return {"prog": p.prog, "edges": p.edges}


def component(rng, nval):
    f = rng.choice([C01.s_dag_distinct, C01.s_dag_distinct, C01.s_sel, C01.s_logic_chain, C02.s_arith, C02.s_filter,
                    C06.s_inline, C06.s_noninline, C06.s_fanout, C06.s_bundle_cond, C06.s_bundle_cond, far_merge,
                    "mem", "mixed"])
    if f == "mem":
        prog, edges = C03.build(rng, "basic")
        return prog, edges
    if f == "mixed":
        return biggen.mixed_program(rng, "small", counters=False), None
    c = f(rng, nval)
    return c["prog"], c.get("edges")


def types_of(prog):
    import json

    from ..gen import FAR_VIRT, FLUIDS, ITEMS, NS_VIRT

    s = json.dumps(prog)
    return [t for t in FAR_VIRT + ITEMS + FLUIDS + NS_VIRT if '"%s"' % t in s]


def gen_cases(tier, seed):
    rng = random.Random(12000017 * seed + 79)
    n = 110 if tier == "quick" else 1200
    nval = 6 if tier == "quick" else 12
    cases = []
    for i in range(n):
        sub = random.Random(rng.randrange(1 << 60))
        parts = []
        k = 2 if sub.random() < 0.8 else 3
        base_types = None
        dy = sub.choice([40, 40, 12])   # 12: the routes of the components run side by side
        for j in range(k):
            prog, edges = component(sub, nval)
            prog = shift_places(prog, dy * j)
            if base_types and sub.random() < 0.8:
                mine = types_of(prog)
                sub.shuffle(mine)
                mp = {}
                for a, b in zip(mine, base_types):
                    if b not in mine and sub.random() < 0.7:
                        mp[a] = b
                prog = retype(prog, mp)
            else:
                base_types = types_of(prog)
                sub.shuffle(base_types)
            pre = "p%d" % j
            parts.append({"prog": prefixed(prog, pre), "edges": {"%s_%s" % (a, pre): v for a, v in (edges or {}).items()},
                          "pre": pre})
        cases.append({"id": i, "stratum": "pair" if k == 2 else "triple", "parts": parts, "nval": nval,
                      "vseed": sub.randrange(1 << 30), "sseed": sub.randrange(1 << 30), "pseed": sub.randrange(1 << 30),
                      "poles": sub.choice([None, None, None, "medium"]), "iseeds": [sub.randrange(1 << 30) for _ in range(3)]})
    return cases


def owner_of(desc, pres):
    hits = set()
    for pre in pres:
        if re.search(r"[A-Za-z0-9]_%s\b" % re.escape(pre), desc or ""):
            hits.add(pre)
    return hits.pop() if len(hits) == 1 else None


def crosstalk(ex, sim, owners):
    """Readers owned by one program whose input networks carry non-zero emissions of another's entities."""
    out = []
    ents = sim.ents
    # network root -> set of owners of non-zero emitters
    emit = {}
    for n, conns in sim._emit_nodes:
        o = owners.get(n)
        if o is None:
            continue
        cur = sim.emitted(n)
        if not cur:
            continue
        for c in conns:
            emit.setdefault(sim._find((n, c)), {}).setdefault(o, []).append(n)
    for n, e in ents.items():
        o = owners.get(n)
        if o is None or protos.is_pole(e["name"]):
            continue
        for c in (1, 2):
            if (n, c) not in sim.parent:
                continue
            r = sim._find((n, c))
            for o2, srcs in emit.get(r, {}).items():
                if o2 != o:
                    out.append({"reader": [n, e["name"], (e.get("player_description") or "")[:60]], "reader_owner": o,
                                "emitter": [srcs[0], ents[srcs[0]]["name"], (ents[srcs[0]].get("player_description") or "")[:60]],
                                "emitter_owner": o2, "connector": c})
                    if len(out) >= 3:
                        return out
    return out


def run_case(case):
    parts = case["parts"]
    rng = random.Random(case["vseed"])
    base = {"stratum": case["stratum"], "shape": "+".join(lang.shape_of(p["prog"]) for p in parts)}
    alone = []
    ccase = {"sseed": case["sseed"], "pseed": case["pseed"], "poles": case["poles"]}
    evals = 0
    for p in parts:
        src, _l, b = sem.compile_prog(p["prog"], ccase)
        if not b.ok:
            return dict(base, verdict="vacuous", why="a component is rejected alone: %s" % str(b.error)[:200])
        alone.append((src, sem.Exec(b, p["prog"])))
    edges = {}
    for p in parts:
        edges.update(p["edges"])
    nonzero = 0
    sample = None
    for iseed in case["iseeds"]:
        joint = []
        lists = [list(p["prog"]) for p in parts]
        joint = lists[0]
        for other in lists[1:]:
            joint = twins.interleave(joint, other, random.Random(iseed))
        jsrc, _l, jb = sem.compile_prog(joint, dict(ccase, sseed=iseed))
        if not jb.ok and "layout" in str(jb.error):
            return dict(base, verdict="vacuous", evaluations=evals,
                        why="no layout found for the joint program under this schedule: %s" % str(jb.error)[:120])
        if not jb.ok:
            return dict(base, verdict="violated", nontrivial=True, evaluations=evals,
                        why="components accepted alone but rejected together: %s" % str(jb.error)[:250],
                        witness={"joint_source": jsrc[:3000]})
        jex = sem.Exec(jb, joint)
        jsim = jex.sim("phys")
        # ownership
        pres = [p["pre"] for p in parts]
        owners = {}
        for e in jex.view.bp.get("entities", []):
            o = owner_of(e.get("player_description"), pres)
            if o:
                owners[e["entity_number"]] = o
        for p in parts:
            it = lang.Interp(p["prog"]).run()
            for ent in it.entities:
                if ent["x"] is not None:
                    for n in jex.entity_at(ent["proto"], ent["x"], ent["y"]):
                        owners[n] = p["pre"]
        vals = gen.valuations(joint, case["nval"], rng, small=True, edges=edges)
        sims = [ex.sim("phys") for _s, ex in alone]
        for val in vals:
            oj = sem.observe_all(jex, jsim, val)
            evals += 1
            if oj["missing_inputs"]:
                return dict(base, verdict="inconclusive", why="input not found by label in the joint build")
            ct = crosstalk(jex, jsim, owners)
            if ct:
                return dict(base, verdict="violated", nontrivial=True, evaluations=evals,
                            why="cross-talk: an entity of %s reads a network carrying a signal emitted by %s" % (
                                ct[0]["reader_owner"], ct[0]["emitter_owner"]),
                            witness={"joint_source": jsrc[:3000], "inputs": val, "crosstalk": ct, "poles": case["poles"]})
            for (asrc, aex), asim, p in zip(alone, sims, parts):
                pv = {k: v for k, v in val.items() if k.endswith("_" + p["pre"])}
                oa = sem.observe_all(aex, asim, pv)
                evals += 1
                sub = {"settled": oa["settled"],   # settling of the joint circuit is global: not compared per component
                       "out": {k: v for k, v in oj["out"].items() if k in oa["out"] or k in oa["const"]},
                       "const": {k: v for k, v in oj["const"].items() if k in oa["out"] or k in oa["const"]},
                       "ent": {k: v for k, v in oj["ent"].items() if k in oa["ent"]}}
                missing = [k for k in list(oa["out"]) + list(oa["ent"]) if k not in sub["out"] and k not in sub["const"] and k not in sub["ent"]]
                d = sem.diff_observations(sub, {k: oa[k] for k in ("settled", "out", "const", "ent")})
                if missing:
                    d.append({"what": "observable of the component missing in the joint build", "names": missing[:4]})
                if any(v.get("signals") for v in oa["out"].values()):
                    nonzero += 1
                if d:
                    # stage: is the difference already explained inside the joint build by the logical execution?
                    jl = jex.sim("log")
                    ojl = sem.observe_all(jex, jl, val)
                    subl = {"settled": ojl["settled"], "out": {k: v for k, v in ojl["out"].items() if k in oa["out"] or k in oa["const"]},
                            "const": {k: v for k, v in ojl["const"].items() if k in oa["out"] or k in oa["const"]},
                            "ent": {k: v for k, v in ojl["ent"].items() if k in oa["ent"]}}
                    al = aex.sim("log")
                    oal = sem.observe_all(aex, al, pv)
                    dl = sem.diff_observations(subl, {k: oal[k] for k in ("settled", "out", "const", "ent")})
                    from .. import wiring

                    faithful = all(wiring.physical_partition(x.build.bp) == wiring.planned_partition(x.build.bp, x.build.cap)
                                   for x in (jex, aex))
                    stage = "upstream" if dl else (sem.K1 if faithful else "wiring")
                    res = dict(base, verdict="violated", nontrivial=True, evaluations=evals,
                               why="%s: component %s behaves differently in the joint build: %s" % (stage, p["pre"], str(d[0])[:250]),
                               witness={"joint_source": jsrc[:3000], "alone_source": asrc[:1500], "inputs": val,
                                        "differences": d[:3], "stage": stage, "poles": case["poles"]})
                    if stage == sem.K1:
                        res["finding"] = sem.K1
                    return res
        if sample is None:
            sample = {"joint_source": jsrc[:1200], "components": len(parts), "owned_entities": len(owners),
                      "poles": case["poles"]}
    return dict(base, verdict="held", nontrivial=nonzero > 0, evaluations=evals, monitors={"plan": 3 + len(parts)},
                sample=sample)
