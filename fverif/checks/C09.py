"""C09 - user-placed entities appear once, where and how the program says."""
from __future__ import annotations

import collections
import random

from .. import biggen, driver, gen, lang, protos, sem
from ..lang import CMP_OPS

PROPERTY = "C09"
LEVEL = "exploration"
TIMEOUT = 600
BUDGET = {"quick": 600, "thorough": 3600}
RULE = ("Programs placing 1-1000+ entities at compile-time constant coordinates (literals, int variables, loop "
        "iterators, arithmetic on them, negative coordinates, 1x1 / 2x2 / 3x3 / 1x2 prototypes, static property "
        "dictionaries, wired and unwired, inside functions incl. entity-returning ones and nested loops; one "
        "stratum above 500 entities for the decomposition path) are compiled by the real compiler under pole "
        "options and injected solver schedules. The multiset of (prototype, top-left tile, static properties) of "
        "the entities whose plan role is user_entity (role recorded by the harness-attached plan monitor) must "
        "equal the reference multiset obtained by interpreting the description (loops unrolled, calls expanded, "
        "int32 arithmetic on coordinates). Non-trivial: at least 2 placed entities; distinct = program shape x "
        "configuration.")
ASSUMPTIONS = [
    "top-left tile = centre - tile size / 2 with tile sizes from draftsman's game data",
    "static properties compared: direction, station, recipe, bar, always_on (top level) and use_colors, color_mode (control_behavior)",
    "rotated non-square prototypes are confined to a dedicated stratum (their tile is ambiguous)",
]

PROTOS = [("small-lamp", 1, 1, {}), ("small-lamp", 1, 1, {"always_on": 1}), ("inserter", 1, 1, {"direction": 4}),
          ("transport-belt", 1, 1, {"direction": 8}), ("steel-chest", 1, 1, {"bar": 3}), ("train-stop", 2, 2, {"station": "Depot"}),
          ("assembling-machine-1", 3, 3, {"recipe": "iron-gear-wheel"}), ("storage-tank", 3, 3, {}), ("pump", 1, 2, {}),
          ("power-switch", 2, 2, {}), ("wooden-chest", 1, 1, {}),
          # poles the USER places (not the compiler's grid): they must survive --power-poles trimming
          ("small-electric-pole", 1, 1, {}), ("medium-electric-pole", 1, 1, {}), ("big-electric-pole", 2, 2, {}),
          ("substation", 2, 2, {})]
F_ROT = "C09-rotated-non-square-entity-off-grid"


def _mk(prog, stratum, rng, **kw):
    c = {"stratum": stratum, "prog": prog, "pseed": rng.randrange(1 << 30), "sseed": rng.randrange(1 << 30),
         "poles": rng.choice([None, None, "small", "medium", "big", "substation"]),
         "schedule": rng.choice([["first", rng.randrange(1 << 30)], ["first", rng.randrange(1 << 30)],
                                 ["first", rng.randrange(1 << 30)], ["budget", rng.choice([0.2, 1.0]), 3], ["fail", 1, 5]]),
         "optimize": rng.random() < 0.7}
    c.update(kw)
    return c


def s_scatter(rng):
    types = gen.Types(rng)
    prog = [["input", "a", types.fresh(), 5], ["int", "ox", ["n", rng.randint(-30, 30)]], ["int", "oy", ["n", rng.randint(-30, 30)]]]
    used = []
    n = rng.randint(1, 14)
    k = 0
    tries = 0
    while k < n and tries < 300:
        tries += 1
        proto, w, h, props = rng.choice(PROTOS)
        x, y = rng.randint(-20, 20), rng.randint(-20, 20)
        if any(x < ux + uw + 1 and ux < x + w + 1 and y < uy + uh + 1 and uy < y + h + 1 for ux, uy, uw, uh in used):
            continue
        used.append((x, y, w, h))
        ox, oy = prog[1][2][1], prog[2][2][1]
        form = rng.choice(["lit", "var", "arith"])
        if form == "lit":
            xe, ye = ["n", x + ox], ["n", y + oy]
        elif form == "var":
            xe, ye = ["b", "+", ["v", "ox"], ["n", x]], ["b", "+", ["n", y], ["v", "oy"]]
        else:
            xe = ["b", "-", ["b", "*", ["n", 2], ["n", x + ox]], ["n", x + ox]]
            ye = ["b", "+", ["b", "/", ["n", 2 * (y + oy) + (1 if y + oy >= 0 else -1)], ["n", 2]], ["n", 0]]
        prog.append(["place", "e%d" % k, proto, xe, ye, dict(props) or None])
        if rng.random() < 0.6 and proto not in ("steel-chest", "wooden-chest", "storage-tank"):
            prog.append(["set", "e%d" % k, "enable", ["c", rng.choice(CMP_OPS), ["v", "a"], ["n", rng.randint(0, 9)]]])
        k += 1
    return _mk(prog, "scattered", rng)


def s_loops(rng):
    types = gen.Types(rng)
    prog = [["input", "a", types.fresh(), 5]]
    ni, nj = rng.randint(1, 8), rng.randint(1, 6)
    proto, w, h, props = rng.choice(PROTOS)
    sx, sy = w + rng.randint(0, 2), h + rng.randint(0, 2)
    ox, oy = rng.randint(-40, 10), rng.randint(-40, 10)
    body = [["place", "l", proto, ["b", "+", ["n", ox], ["b", "*", ["v", "i"], ["n", sx]]],
             ["b", "+", ["n", oy], ["b", "*", ["v", "j"], ["n", sy]]], dict(props) or None]]
    if rng.random() < 0.5 and proto not in ("steel-chest", "wooden-chest", "storage-tank"):
        body.append(["set", "l", "enable", ["c", ">", ["v", "a"], ["b", "+", ["v", "i"], ["v", "j"]]]])
    prog.append(["for", "i", ["range", 0, ni, None], [["for", "j", ["list", list(range(nj))], body]]])
    return _mk(prog, "nested_loops", rng)


def s_functions(rng):
    types = gen.Types(rng)
    prog = [["input", "a", types.fresh(), 5]]
    prog.append(["func", "mk", [["int", "x"], ["int", "y"], ["Signal", "v"]],
                 [["place", "l", "small-lamp", ["v", "x"], ["b", "+", ["v", "y"], ["n", 1]], {"always_on": 1}],
                  ["set", "l", "enable", ["c", ">", ["v", "v"], ["v", "x"]]]], ["v", "l"]])
    prog.append(["func", "row", [["int", "y"], ["Signal", "v"]],
                 [["for", "k", ["range", 0, rng.randint(1, 4), None],
                   [["place", "b", "transport-belt", ["b", "*", ["v", "k"], ["n", 1]], ["v", "y"], {"direction": 4}]]]], None])
    n = rng.randint(1, 5)
    for i in range(n):
        prog.append(["ent", "q%d" % i, ["call", "mk", [["n", 3 * i - 6], ["n", rng.choice([-10, 20, 30])  + i], ["v", "a"]]]])
    for i in range(rng.randint(0, 3)):
        prog.append(["expr", ["call", "row", [["n", 40 + 2 * i], ["v", "a"]]]])
    return _mk(prog, "functions", rng)


def s_big(rng):
    types = gen.Types(rng)
    ni, nj = rng.randint(24, 34), rng.randint(18, 24)
    prog = [["input", "a", types.fresh(), 5],
            ["for", "i", ["range", 0, ni, None],
             [["for", "j", ["range", 0, nj, None],
               [["place", "l", "small-lamp", ["b", "*", ["v", "i"], ["n", 2]], ["b", "+", ["n", 20], ["b", "*", ["v", "j"], ["n", 2]]], None],
                ["set", "l", "enable", ["c", ">", ["v", "a"], ["b", "+", ["v", "i"], ["v", "j"]]]]]]]]]
    if rng.random() < 0.7:
        # a second, separate circuit (its own input) and a few unconnected entities: several connected components
        prog.insert(1, ["input", "b", types.fresh(), 7])
        prog.append(["for", "k", ["range", 0, rng.randint(3, 12), None],
                     [["place", "m", "small-lamp", ["b", "*", ["v", "k"], ["n", 2]], ["n", 10], None],
                      ["set", "m", "enable", ["c", "<", ["v", "b"], ["v", "k"]]]]])
        for q in range(rng.randint(1, 3)):
            prog.append(["place", "c%d" % q, rng.choice(["steel-chest", "wooden-chest"]), ["n", -6 - 2 * q], ["n", 10], None])
    return _mk(prog, "above_500_entities", rng, poles=None, schedule=["first", rng.randrange(1 << 30)])


def s_mixed(rng):
    prog = biggen.mixed_program(rng, rng.choice(["small", "medium"]), far=rng.random() < 0.5)
    return _mk(prog, "mixed_with_circuits", rng)


NON_SQUARE = [("pump", 1, 2), ("splitter", 2, 1), ("fast-splitter", 2, 1), ("boiler", 3, 2), ("heat-exchanger", 3, 2),
              ("arithmetic-combinator", 1, 2), ("decider-combinator", 1, 2)]


def s_rotated(rng):
    """Non-square prototypes (tall and wide) in all four directions, top level and in a loop."""
    types = gen.Types(rng)
    prog = [["input", "a", types.fresh(), 5]]
    ox, oy = rng.randint(-15, 15), rng.randint(-15, 15)
    for i in range(rng.randint(1, 4)):
        proto, _w, _h = rng.choice(NON_SQUARE)
        prog.append(["place", "p%d" % i, proto, ["n", ox + 6 * i], ["n", oy], {"direction": rng.choice([0, 4, 8, 12, 4, 12])}])
    if rng.random() < 0.4:
        proto, _w, _h = rng.choice(NON_SQUARE)
        prog.append(["for", "k", ["range", 0, rng.randint(1, 3), None],
                     [["place", "q", proto, ["b", "*", ["v", "k"], ["n", 6]], ["n", oy + 8], {"direction": rng.choice([4, 12])}]]])
    return _mk(prog, "rotated_non_square", rng)


def gen_cases(tier, seed):
    rng = random.Random(9000011 * seed + 67)
    n = 150 if tier == "quick" else 1500
    fns = [(s_scatter, 5), (s_loops, 4), (s_functions, 3), (s_mixed, 3), (s_rotated, 2)]
    cases = []
    for i in range(n):
        f = rng.choices([f for f, _w in fns], [w for _f, w in fns])[0]
        sub = random.Random(rng.randrange(1 << 60))
        cases.append(f(sub))
    for _ in range(2 if tier == "quick" else 12):
        cases.append(s_big(random.Random(rng.randrange(1 << 60))))
    for i, c in enumerate(cases):
        c["id"] = i
    return cases


PROP_TOP = ("direction", "station", "recipe", "bar", "always_on")
PROP_CB = ("use_colors", "color_mode")


def norm_props(d):
    out = []
    for k, v in sorted((d or {}).items()):
        if isinstance(v, bool):
            v = int(v)
        if k == "direction" and not v:
            continue    # north is the default and is not exported
        out.append((k, v))
    return tuple(out)


def observed_multiset(b):
    bp = b.bp["blueprint"]
    ents = bp.get("entities", [])
    cap = b.cap or {}
    ids = cap.get("ids") or []
    roles = cap.get("placements") or {}
    out = collections.Counter()
    for idx, e in enumerate(ents):
        pid = ids[idx] if idx < len(ids) else None
        role = roles.get(pid, {}).get("role")
        if role != "user_entity":
            continue
        w, h = protos.tile_size(e["name"])
        if (e.get("direction", 0) or 0) in (4, 12):
            w, h = h, w
        tx = e["position"]["x"] - w / 2.0
        ty = e["position"]["y"] - h / 2.0
        props = {}
        for k in PROP_TOP:
            if k in e:
                props[k] = e[k]
        cb = e.get("control_behavior") or {}
        for k in PROP_CB:
            if k in cb:
                props[k] = cb[k]
        out[(e["name"], tx, ty, norm_props(props))] += 1
    return out


def run_case(case):
    prog = case["prog"]
    src, _l, b = sem.compile_prog(prog, case)
    base = {"shape": lang.shape_of(prog) + "|%s|%s" % (case.get("poles"), case["schedule"][0]), "stratum": case["stratum"],
            "evaluations": 1}
    if not b.ok:
        return dict(base, verdict="vacuous", why="rejected: " + str(b.error)[:300], src=src[:600])
    it = lang.Interp(prog).run()
    want = collections.Counter()
    for e in it.entities:
        if e["x"] is None:
            continue
        want[(e["proto"], float(e["x"]), float(e["y"]), norm_props({k: v for k, v in e["props"].items()
                                                                 if k in PROP_TOP + PROP_CB}))] += 1
    got = observed_multiset(b)
    base["monitors"] = {"plan": 1, "solver": len(b.solves)}
    if got != want:
        missing = list((want - got).items())[:4]
        extra = list((got - want).items())[:4]
        res = dict(base, verdict="violated", nontrivial=True,
                   why="user-entity multiset differs: missing %s extra %s" % (missing, extra),
                   witness={"source": src[:3000], "missing": missing, "extra": extra, "poles": case.get("poles"),
                            "schedule": case["schedule"], "expected_count": sum(want.values()), "got_count": sum(got.values())})
        if case["stratum"] == "rotated_non_square" and sum(want.values()) == sum(got.values()):
            res["finding"] = F_ROT
        return res
    return dict(base, verdict="held", nontrivial=sum(want.values()) >= 2,
                sample={"source": src[:1200], "entities": sum(want.values()), "poles": case.get("poles"),
                        "schedule": case["schedule"], "blueprint_entities": len(b.bp["blueprint"]["entities"])})
