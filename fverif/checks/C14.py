"""C14 - ill-formed programs are rejected and produce no blueprint."""
from __future__ import annotations

import base64
import json
import os
import random
import subprocess
import tempfile
import zlib

from .. import driver, gen, lang, monitors, pool
from . import C01, C06

PROPERTY = "C14"
LEVEL = "exploration"
TIMEOUT = 600
BUDGET = {"quick": 600, "thorough": 3600}
REQUIRED_MONITORS = ["diagnostics"]
RULE = ("[87 rule variants: each documented rule in several syntactic positions / spellings, embedded at 6 positions] "
        "Each documented static rule (undefined variable / function / memory / entity, redefinition, assignment to an "
        "immutable name, wrong kind for a declared type or parameter, wrong argument count, direct and indirect "
        "recursion, duplicate bundle type, Bundle OP Bundle, bare bundle comparison, absent bundle member, unknown "
        "signal, reserved signal-W in every position, write type contradicting the cell, second write, zero loop step, "
        "non-comparison before ':', syntax errors) is embedded as a violating construct into randomly generated "
        "accepted host programs at every kind of position (first / middle / last statement, inside a called function, "
        "inside a loop body with >= 1 iteration, loop inside function). Oracle: the un-mutated host is accepted; the "
        "mutated program is not compiled successfully by compile_dsl_source; the diagnostic names the problem "
        "(lenient keyword set per rule); for a sample the real CLI entry points (python -m dsl_compiler, compile.py; "
        "-i and file; stdout and -o) exit non-zero and neither stdout nor the -o file contains anything that decodes "
        "as a blueprint. A harness monitor on ProgramDiagnostics.error records which check fired. evaluations = "
        "mutated programs compiled; distinct non-trivial = (rule variant, position kind) pairs rejected for the "
        "right reason.")
ASSUMPTIONS = [
    "loops with zero iterations and never-called functions are not used as hosts (the analyzer only sees executed loop bodies)",
    "the message clause is lenient: any of a small keyword set per rule suffices",
]

# (rule id, variant, snippet statements (each a line; {x} = a signal name in scope), message keywords, single)
RULES = [
    ("undefined_variable", "expr", ["Signal zz1 = nope_var + 1;"], ["undefined", "not defined"], True),
    ("undefined_function", "call", ["Signal zz1 = nope_func({x});"], ["undefined", "not defined", "unknown"], True),
    ("undefined_memory", "read", ["Signal zz1 = nope_mem.read();"], ["undefined", "not defined", "not a memory"], True),
    ("undefined_memory", "write", ["nope_mem.write({x});"], ["undefined", "not defined"], True),
    ("undefined_entity", "prop", ["nope_ent.enable = {x} > 1;"], ["undefined", "not defined"], True),
    ("redefinition", "same_scope", ["Signal zz1 = 5;", "Signal zz1 = 6;"], ["already defined", "redefin", "duplicate"], True),
    ("assign_immutable", "signal", ["Signal zz1 = {x} + 1;", "zz1 = {x} + 2;"], ["immutable", "cannot assign"], True),
    ("wrong_kind", "entity_from_int", ["Entity zz1 = 42;"], ["cannot assign", "type", "entity"], True),
    ("wrong_kind", "int_from_signal", ["int zz1 = {x};"], ["cannot assign", "type"], True),
    ("wrong_kind", "signal_from_entity", ['Signal zz1 = place("small-lamp", 90, 90);'], ["cannot assign", "type"], True),
    ("wrong_kind", "bundle_from_int", ["Bundle zz1 = 5;"], ["cannot assign", "type", "bundle"], True),
    ("wrong_kind", "parameter", ["func zzf(Entity e) { e.enable = 1; }", "zzf({x});"], ["expected", "argument", "entity"], False),
    ("argument_count", "too_many", ["func zzf(Signal s) { return s + 1; }", "Signal zz1 = zzf({x}, {x});"], ["expects", "argument"], False),
    ("argument_count", "too_few", ["func zzf(Signal s, int n) { return s + n; }", "Signal zz1 = zzf({x});"], ["expects", "argument"], False),
    ("recursion", "direct", ["func zzr(Signal s) { return zzr(s) + 1; }", "Signal zz1 = zzr({x});"], ["recurs"], False),
    ("recursion", "indirect", ["func zza(Signal s) { return zzb(s); }", "func zzb(Signal s) { return zza(s); }", "Signal zz1 = zza({x});"],
     ["recurs", "undefined"], False),
    ("bundle_duplicate_type", "literal", ['Bundle zz1 = {{ ("iron-plate", 1), ("iron-plate", 2) }};'], ["duplicate"], True),
    ("bundle_duplicate_type", "nested_then_literal", ['Bundle zza = {{ ("iron-plate", 1), ("coal", 2) }};', 'Bundle zz1 = {{ zza, ("iron-plate", 3) }};'], ["duplicate"], True),
    ("bundle_duplicate_type", "literal_then_nested", ['Bundle zza = {{ ("iron-plate", 1) }};', 'Bundle zz1 = {{ ("iron-plate", 3), zza }};'], ["duplicate"], True),
    ("bundle_duplicate_type", "two_nested", ['Bundle zza = {{ ("iron-plate", 1) }};', 'Bundle zzb = {{ ("coal", 1), ("iron-plate", 4) }};', "Bundle zz1 = {{ zza, zzb }};"], ["duplicate"], True),
    ("bundle_duplicate_type", "same_bundle_twice", ['Bundle zza = {{ ("iron-plate", 1) }};', "Bundle zz1 = {{ zza, zza }};"], ["duplicate"], True),
    ("bundle_duplicate_type", "signal_variable", ['Signal zzs = ("iron-plate", 1);', 'Bundle zz1 = {{ zzs, ("iron-plate", 2) }};'], ["duplicate"], True),
    ("bundle_duplicate_type", "computed_members", ['Bundle zza = {{ ("iron-plate", 1) }};', 'Bundle zz1 = {{ zza * 2, {x} | "iron-plate" }};'], ["duplicate"], True),
    ("bundle_duplicate_type", "projections", ['Bundle zz1 = {{ {x} | "coal", ({x} + 1) | "coal" }};'], ["duplicate"], True),
    ("bundle_op_bundle", "minus", ['Bundle zza = {{ ("iron-plate", 1) }};', 'Bundle zzb = {{ ("coal", 2) }};', "Bundle zzc = zza - zzb;"],
     ["bundle"], True),
    ("bundle_op_bundle", "times_self", ['Bundle zza = {{ ("iron-plate", 1) }};', "Bundle zzc = zza * zza;"], ["bundle"], True),
    ("bundle_op_bundle", "literal_operand", ['Bundle zza = {{ ("iron-plate", 1) }};', 'Bundle zzc = zza + {{ ("coal", 2) }};'], ["bundle"], True),
    ("bare_bundle_comparison", "in_logical_chain", ['Bundle zza = {{ ("iron-plate", 1) }};', "Signal zz1 = (zza > 0) && ({x} > 1);"], ["bundle", "any(", "all("], True),
    ("bare_bundle_comparison", "against_signal", ['Bundle zza = {{ ("iron-plate", 1) }};', "Signal zz1 = zza == {x};"], ["bundle", "any(", "all("], True),
    ("bundle_absent_member", "select_after_arith", ['Bundle zza = {{ ("iron-plate", 1) }};', 'Signal zz1 = (zza * 2)["coal"];'], ["not found", "not in", "bundle"], True),
    ("bundle_absent_member", "select_after_wider_literal", ['Bundle zza = {{ ("iron-plate", 1), ("coal", 3) }};', 'Bundle zzw = {{ zza, ("steel-plate", 3) }};', 'Signal zz1 = zza["steel-plate"];'], ["not found", "not in", "bundle"], True),
    ("bundle_absent_member", "select_after_wider_literal_last", ['Bundle zza = {{ ("iron-plate", 1) }};', 'Bundle zzw = {{ ("steel-plate", 3), zza }};', 'Signal zz1 = zza["steel-plate"];'], ["not found", "not in", "bundle"], True),
    ("bundle_absent_member", "select_after_bundle_op_copy", ['Bundle zza = {{ ("iron-plate", 1) }};', 'Bundle zzb = zza;', 'Bundle zzw = {{ zzb, ("steel-plate", 3) }};', 'Signal zz1 = zza["steel-plate"] + zzb["steel-plate"];'], ["not found", "not in", "bundle"], True),
    ("bundle_absent_member", "select_in_expression", ['Bundle zza = {{ ("iron-plate", 1), ("coal", 3) }};', 'Signal zz1 = zza["coal"] + zza["steel-plate"];'], ["not found", "not in", "bundle"], True),
    ("undefined_variable", "condition", ["Signal zz1 = (nope_var > 1) : {x};"], ["undefined", "not defined"], True),
    ("undefined_variable", "bundle_member", ["Bundle zz1 = {{ {x}, nope_var }};"], ["undefined", "not defined"], True),
    ("undefined_variable", "write_argument", ['Memory zzm: "iron-plate";', "zzm.write(nope_var);"], ["undefined", "not defined"], True),
    ("undefined_variable", "write_condition", ['Memory zzm: "iron-plate";', 'zzm.write(("iron-plate", 1), when=nope_var > 0);'], ["undefined", "not defined"], True),
    ("undefined_variable", "place_coordinate", ['Entity zzl = place("small-lamp", nope_var, 95);'], ["undefined", "not defined"], True),
    ("undefined_variable", "loop_bound", ["for zzi in 0..nope_var {{ Signal zzx = 1; }}"], ["undefined", "not defined"], True),
    ("undefined_variable", "call_argument", ["func zzf(Signal s) {{ return s + 1; }}", "Signal zz1 = zzf(nope_var);"], ["undefined", "not defined"], False),
    ("undefined_variable", "enable", ['Entity zzl = place("small-lamp", 96, 96);', "zzl.enable = nope_var > 0;"], ["undefined", "not defined"], True),
    ("undefined_memory", "latch_write", ["nope_mem.write(1, set={x} > 1, reset={x} < 0);"], ["undefined", "not defined"], True),
    ("undefined_entity", "output", ["Bundle zz1 = nope_ent.output;"], ["undefined", "not defined", "unknown entity"], True),
    ("redefinition", "memory_after_signal", ["Signal zz1 = 5;", 'Memory zz1: "iron-plate";'], ["already defined", "redefin", "duplicate"], True),
    ("redefinition", "int_after_int", ["int zz1 = 5;", "int zz1 = 6;"], ["already defined", "redefin", "duplicate"], True),
    ("redefinition", "entity_twice", ['Entity zz1 = place("small-lamp", 97, 97);', 'Entity zz1 = place("small-lamp", 98, 98);'], ["already defined", "redefin", "duplicate"], True),
    ("redefinition", "function_twice", ["func zzf(Signal s) {{ return s + 1; }}", "func zzf(Signal s) {{ return s + 2; }}"], ["already defined", "redefin", "duplicate"], False),
    ("redefinition", "bundle_after_signal", ["Signal zz1 = 5;", 'Bundle zz1 = {{ ("coal", 1) }};'], ["already defined", "redefin", "duplicate"], True),
    ("assign_immutable", "int", ["int zz1 = 3;", "zz1 = 4;"], ["immutable", "cannot assign"], True),
    ("assign_immutable", "bundle", ['Bundle zz1 = {{ ("coal", 1) }};', 'zz1 = {{ ("coal", 2) }};'], ["immutable", "cannot assign"], True),
    ("argument_count", "zero_args", ["func zzf(Signal s) {{ return s + 1; }}", "Signal zz1 = zzf();"], ["expects", "argument"], False),
    ("argument_count", "none_expected", ["func zzf() {{ return 5; }}", "Signal zz1 = zzf({x});"], ["expects", "argument"], False),
    ("wrong_kind", "signal_parameter_gets_bundle", ["func zzf(Signal s) {{ return s + 1; }}", 'Bundle zza = {{ ("coal", 1) }};', "Signal zz1 = zzf(zza);"], ["expected", "argument", "type"], False),
    ("wrong_kind", "signal_from_bundle", ['Bundle zza = {{ ("coal", 1) }};', "Signal zz1 = zza;"], ["cannot assign", "type"], True),
    ("second_write", "conditional_writes", ['Memory zzm: "iron-plate";', 'zzm.write(("iron-plate", 1), when={x} > 1);', 'zzm.write(("iron-plate", 2), when={x} < 0);'],
     ["multiple writes", "only one", "one write"], True),
    ("second_write", "latch_and_write", ['Memory zzm: "iron-plate";', "zzm.write(1, set={x} > 1, reset={x} < 0);", 'zzm.write(("iron-plate", 2));'],
     ["multiple writes", "only one", "one write"], True),
    ("write_type_mismatch", "projected", ['Memory zzm: "iron-plate";', 'zzm.write({x} | "coal");'], ["mismatch", "expects"], True),
    ("write_type_mismatch", "conditional", ['Memory zzm: "iron-plate";', 'zzm.write(("coal", 1), when={x} > 0);'], ["mismatch", "expects"], True),
    ("zero_step", "descending", ["for zzi in 5..0 step 0 {{ Signal zzx = 1; }}"], ["step", "zero"], True),
    ("non_comparison_condition", "number", ["Signal zz1 = 5 : {x};"], ["comparison"], True),
    ("non_comparison_condition", "negation", ["Signal zz1 = (-{x}) : {x};"], ["comparison"], True),
    ("non_comparison_condition", "projection", ['Signal zz1 = ({x} | "coal") : {x};'], ["comparison"], True),
    ("unknown_signal", "bundle_member", ['Bundle zz1 = {{ ("bogus-signal", 1) }};'], ["unknown signal", "not a valid", "invalid"], True),
    ("unknown_signal", "bundle_select", ['Bundle zza = {{ ("coal", 1) }};', 'Signal zz1 = zza["bogus-signal"];'], ["unknown signal", "not a valid", "invalid", "not found"], True),
    ("reserved_signal", "bundle_select", ['Bundle zza = {{ ("coal", 1) }};', 'Signal zz1 = zza["signal-W"];'], ["reserved", "not found"], True),
    ("reserved_signal", "write_value", ['Memory zzm;', 'zzm.write(("signal-W", 1));'], ["reserved"], True),
    ("bundle_op_bundle", "plus", ['Bundle zza = {{ ("iron-plate", 1) }};', 'Bundle zzb = {{ ("coal", 2) }};', "Bundle zzc = zza + zzb;"],
     ["bundle"], True),
    ("bare_bundle_comparison", "declaration", ['Bundle zza = {{ ("iron-plate", 1) }};', "Signal zz1 = zza > 0;"], ["bundle", "any(", "all("], True),
    ("bare_bundle_comparison", "enable", ['Bundle zza = {{ ("iron-plate", 1) }};', 'Entity zzl = place("small-lamp", 91, 91);', "zzl.enable = zza > 0;"],
     ["bundle", "any(", "all("], True),
    ("bundle_absent_member", "select", ['Bundle zza = {{ ("iron-plate", 1) }};', 'Signal zz1 = zza["coal"];'], ["not found", "not in", "bundle"], True),
    ("unknown_signal", "literal", ['Signal zz1 = ("not-a-signal", 1);'], ["unknown signal", "not a valid", "invalid"], True),
    ("unknown_signal", "projection", ['Signal zz1 = {x} | "bogus-signal";'], ["unknown signal", "not a valid", "invalid"], True),
    ("unknown_signal", "memory_type", ['Memory zzm: "bogus-signal";'], ["unknown signal", "not a valid", "invalid"], True),
    ("reserved_signal", "literal", ['Signal zz1 = ("signal-W", 1);'], ["reserved"], True),
    ("reserved_signal", "projection", ['Signal zz1 = {x} | "signal-W";'], ["reserved"], True),
    ("reserved_signal", "memory_type", ['Memory zzm: "signal-W";'], ["reserved"], True),
    ("reserved_signal", "bundle_member", ['Bundle zz1 = {{ ("signal-W", 1), ("coal", 2) }};'], ["reserved"], True),
    ("reserved_signal", "entity_output_select", ['Entity zzc = place("steel-chest", 92, 92);', 'Signal zz1 = zzc.output["signal-W"];'], ["reserved"], True),
    ("write_type_mismatch", "explicit", ['Memory zzm: "iron-plate";', 'zzm.write(("coal", 1));'], ["mismatch", "expects"], True),
    ("second_write", "same_cell", ['Memory zzm: "iron-plate";', 'zzm.write(("iron-plate", 1));', 'zzm.write(("iron-plate", 2));'],
     ["multiple writes", "only one", "one write"], True),
    ("zero_step", "literal", ["for zzi in 0..5 step 0 {{ Signal zzx = 1; }}"], ["step", "zero"], True),
    ("zero_step", "int_variable", ["int zzs = 0;", "for zzi in 0..5 step zzs {{ Signal zzx = 1; }}"], ["step", "zero"], True),
    ("non_comparison_condition", "arith", ["Signal zz1 = ({x} + 1) : {x};"], ["comparison"], True),
    ("non_comparison_condition", "identifier", ["Signal zz0 = {x} + 1;", "Signal zz1 = zz0 : {x};"], ["comparison"], True),
    ("syntax_error", "missing_value", ["Signal zz1 = ;"], ["parse", "syntax", "unexpected"], True),
    ("syntax_error", "missing_name", ["Signal = 5;"], ["parse", "syntax", "unexpected"], True),
    ("syntax_error", "missing_semicolon", ["Signal zz1 = 5", "Signal zz2 = 6;"], ["parse", "syntax", "unexpected"], True),
    ("syntax_error", "unbalanced", ["Signal zz1 = (({x} + 1);"], ["parse", "syntax", "unexpected"], True),
]

POSITIONS = ["first", "middle", "last", "in_function", "in_loop", "loop_in_function"]


def host_program(rng):
    f = rng.choice([C01.s_dag_distinct, C01.s_sel, C01.s_logic_chain, C06.s_noninline, C01.s_const_heavy])
    return f(rng, 1)["prog"]


def embed(host_src_lines, snippet, pos, xname, rng):
    xn = xname if pos in ("first", "middle", "last") else "s"
    lines = [ln.replace("{x}", xn).replace("{{", "{").replace("}}", "}") for ln in snippet]
    if pos == "first":
        # after the input declarations the snippet may use
        k = 0
        while k < len(host_src_lines) and not host_src_lines[k].startswith("Signal %s " % xname):
            k += 1
        return host_src_lines[: k + 1] + lines + host_src_lines[k + 1:]
    if pos == "middle":
        k = max(1, len(host_src_lines) // 2)
        while k < len(host_src_lines) and (host_src_lines[k].startswith(" ") or host_src_lines[k].startswith("}")):
            k += 1
        return host_src_lines[:k] + lines + host_src_lines[k:] if _defined_before(host_src_lines, k, xname) else host_src_lines + lines
    if pos == "last":
        return host_src_lines + lines
    if pos == "in_function":
        body = ["func zzhost(Signal s) {"] + ["    " + ln for ln in lines] + ["    return s + 1;", "}",
                                                                                "Signal zzres = zzhost(%s);" % xname]
        return host_src_lines + body
    if pos == "in_loop":
        body = ["Signal s = %s + 0;" % xname, "for zzk in 0..2 {"] + ["    " + ln for ln in lines] + ["}"]
        return host_src_lines + body
    body = ["func zzhost2(Signal s) {", "    for zzk in [3, 4] {"] + ["        " + ln for ln in lines] + [
        "    }", "    return s + 1;", "}", "Signal zzres = zzhost2(%s);" % xname]
    return host_src_lines + body


def _defined_before(lines, k, name):
    return any(ln.startswith("Signal %s " % name) for ln in lines[:k])


def gen_cases(tier, seed):
    rng = random.Random(14000029 * seed + 83)
    cases = []
    hosts_per = 2 if tier == "quick" else 12
    for ri, (rule, variant, snippet, kws, single) in enumerate(RULES):
        for pos in POSITIONS:
            if not single and pos not in ("first", "middle", "last"):
                continue
            for h in range(hosts_per if pos in ("first", "middle", "last") else max(1, hosts_per // 2)):
                sub = random.Random(rng.randrange(1 << 60))
                cases.append({"stratum": rule, "variant": variant, "rule_index": ri, "pos": pos, "host": host_program(sub),
                              "pseed": sub.randrange(1 << 30), "cli": sub.random() < (0.12 if tier == "quick" else 0.2),
                              "cli_mode": sub.randrange(8)})
    rng.shuffle(cases)
    for i, c in enumerate(cases):
        c["id"] = i
    return cases


def looks_like_blueprint(text):
    t = (text or "").strip()
    if not t:
        return False
    for line in [t] + t.splitlines():
        line = line.strip()
        if line.startswith("{"):
            try:
                d = json.loads(line)
                if isinstance(d, dict) and ("blueprint" in d or "entities" in d):
                    return True
            except Exception:  # noqa: BLE001
                pass
        if len(line) > 20 and line[0] == "0":
            try:
                d = json.loads(zlib.decompress(base64.b64decode(line[1:])))
                if isinstance(d, dict):
                    return True
            except Exception:  # noqa: BLE001
                pass
    return False


def worker_init():
    monitors.attach_diag_monitor()


def run_cli(src, mode):
    """mode bits: 1 = file input, 2 = compile.py entry, 4 = -o file."""
    tmp = tempfile.mkdtemp(prefix="fverif_cli_")
    try:
        args = []
        entry = [pool.PY, os.path.join(driver.REPO, "compile.py")] if mode & 2 else [pool.PY, "-m", "dsl_compiler"]
        if mode & 3:   # compile.py only takes a file
            p = os.path.join(tmp, "prog.facto")
            with open(p, "w") as f:
                f.write(src)
            args.append(p)
        else:
            args += ["-i", src]
        outp = os.path.join(tmp, "out.bp")
        if mode & 4:
            args += ["-o", outp]
        env = dict(os.environ)
        env["PYTHONPATH"] = driver.REPO
        env.pop("FACTO_VERIF", None)
        pr = subprocess.run(entry + args, capture_output=True, text=True, cwd=tmp, env=env, timeout=300)
        filetext = open(outp).read() if os.path.exists(outp) else None
        return {"rc": pr.returncode, "stdout": pr.stdout[-2000:], "stderr": pr.stderr[-1500:], "file": filetext, "mode": mode}
    finally:
        import shutil

        shutil.rmtree(tmp, ignore_errors=True)


def run_case(case):
    rule, variant, snippet, kws, single = RULES[case["rule_index"]]
    rng = random.Random(case["pseed"])
    host = case["host"]
    hsrc = lang.to_source(host, rng)[0]
    hlines = [ln for ln in hsrc.split("\n") if ln.strip()]
    xname = next(s[1] for s in host if s[0] == "input")
    base = {"shape": "%s/%s@%s" % (rule, variant, case["pos"]), "stratum": rule, "evaluations": 1}
    b0 = driver.compile_source(hsrc, schedule=("first", 1))
    if not b0.ok:
        return dict(base, verdict="inconclusive", why="host program rejected: %s" % str(b0.error)[:200])
    mlines = embed(hlines, snippet, case["pos"], xname, rng)
    msrc = "\n".join(mlines) + "\n"
    monitors.DIAG_LOG.clear()
    b = driver.compile_source(msrc, schedule=("first", 1))
    diags = list(monitors.DIAG_LOG)
    mon = {"diagnostics": len(diags) + (1 if not b.ok else 0), "plan": 1}
    witness = {"source": msrc, "rule": rule, "variant": variant, "position": case["pos"]}
    if b.ok:
        return dict(base, verdict="violated", nontrivial=True, monitors=mon, finding_key="%s/%s" % (rule, variant),
                    why="ill-formed program accepted (%s/%s at %s) and a blueprint was emitted" % (rule, variant, case["pos"]),
                    witness=witness, **_finding(rule, variant, "accepted"))
    msg = (str(b.error) + " " + " ".join(d.get("message", "") for d in diags)).lower()
    if not any(k in msg for k in kws):
        return dict(base, verdict="violated", nontrivial=True, monitors=mon,
                    why="rejected, but the error does not name the problem (%s/%s): %s" % (rule, variant, str(b.error)[:200]),
                    witness=dict(witness, error=str(b.error)[:600]), **_finding(rule, variant, "message"))
    if case.get("cli"):
        r = run_cli(msrc, case["cli_mode"])
        mon["cli_runs"] = 1
        if r["rc"] == 0 or looks_like_blueprint(r["stdout"]) or looks_like_blueprint(r["file"]):
            return dict(base, verdict="violated", nontrivial=True, monitors=mon,
                        why="CLI: exit status %s / blueprint-like output for an ill-formed program" % r["rc"],
                        witness=dict(witness, cli=r))
    return dict(base, verdict="held", nontrivial=True, monitors=mon,
                sample={"rule": rule, "variant": variant, "position": case["pos"], "error": str(b.error)[:200],
                        "snippet": snippet})


KNOWN = {}


def _finding(rule, variant, clause):
    fid = "C14-%s-%s-%s" % (rule, variant, clause)
    return {"finding": fid}
