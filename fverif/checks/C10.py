"""C10 - optimisation never changes what the circuit does."""
from __future__ import annotations

import random

from .. import gen, lang, sem, stateful
from ..lang import CMP_OPS
from . import C01, C02, C03, C05, C06

PROPERTY = "C10"
LEVEL = "exploration"
TIMEOUT = 300
BUDGET = {"quick": 600, "thorough": 3600}
RULE = ("[strata added in the build: commuted operand pairs for all 11 operators, bundle CSE-key variants, gated cells "
        "sharing one enable expression; names observable in only one of the two builds are differences] "
        "Differential: the same generated source is compiled by the real compiler with optimisation (constant "
        "propagation, CSE, MST wiring) and with --no-optimize; both blueprints are executed in the circuit model "
        "for the same boundary-biased valuations (stateless strata of C01/C02/C06 plus strata aimed at the "
        "optimiser: repeated sub-expressions differing in exactly one of operator / operand / output type / "
        "output mode / copy flag, folded anonymous constants consumed by every consumer kind, fan-out 2-30) and, "
        "for memory cells and latches, through the same held-step histories. All named outputs (by name; "
        "compiler-chosen signals by value) and all entity conditions must be identical, and the optimised build "
        "is also run against the reference semantics (a deviation that the unoptimised build shares is recorded as "
        "common_deviation and left to C01 / C02, it is not an optimiser difference). Non-trivial: some compared output non-zero.")
ASSUMPTIONS = [
    "circuit model fverif/fsim.py",
    "both builds use the same first(seed) solver schedule; layouts differ, which is part of what must not matter",
    "observations tainted by the listed transitive-network-merge defect (K1) in either build are attributed to it by the physical/logical split and not reported as optimiser differences",
]


def _mk(prog, stratum, rng, nval, **kw):
    c = {"stratum": stratum, "prog": prog, "nval": nval, "vseed": rng.randrange(1 << 30),
         "sseed": rng.randrange(1 << 30), "pseed": rng.randrange(1 << 30)}
    c.update(kw)
    return c


def s_cse_variants(rng, nval):
    """Named values that differ in exactly one field of the CSE key."""
    types = gen.Types(rng)
    prog = [["input", "a", types.fresh(), gen.rand_value(rng, True)], ["input", "b", types.fresh(), gen.rand_value(rng, True)]]
    ALL = ["+", "-", "*", "/", "%", "**", "<<", ">>", "AND", "OR", "XOR"]
    op = rng.choice(ALL)
    op2 = rng.choice([o for o in ALL if o != op])
    small = op in ("**", "<<", ">>") or op2 in ("**", "<<", ">>")
    if small:   # keep exponents / shift amounts in the specified domain
        prog[0][3], prog[1][3] = rng.randint(0, 6), rng.randint(0, 6)
    t1, t2 = types.fresh(), types.fresh()
    k = rng.randint(1, 9)
    items = [
        ["p", ["b", op, ["v", "a"], ["v", "b"]], t1],
        ["p", ["b", op, ["v", "a"], ["v", "b"]], t1],        # identical: may be shared
        ["p", ["b", op, ["v", "a"], ["v", "b"]], t2],        # output type differs
        ["p", ["b", op2, ["v", "a"], ["v", "b"]], t1],       # operator differs
        ["p", ["b", op, ["v", "b"], ["v", "a"]], t1],        # operand order differs
        ["p", ["b", op, ["v", "a"], ["n", k]], t1],          # operand differs
        ["p", ["b", op, ["v", "a"], ["n", k + 1]], t1],
        ["p", ["c", ">", ["v", "a"], ["n", k]], t1],         # decider constant output
        ["p", ["c", ">", ["v", "a"], ["n", k]], t2],
        ["s", ["c", ">", ["v", "a"], ["n", k]], ["v", "b"]],  # copy-count output
        ["s", ["c", ">", ["v", "a"], ["n", k]], ["n", 7]],    # constant output 7
        ["s", ["c", ">", ["v", "a"], ["n", k]], ["n", 1]],
        ["s", ["c", ">=", ["v", "a"], ["n", k]], ["v", "b"]],
    ]
    # chains over the same comparisons that differ only in the combine mode (and / or) or in one row
    c1 = ["c", ">", ["v", "a"], ["n", k]]
    c2 = ["c", rng.choice(["<", ">", "!="]), ["v", "b"], ["n", rng.randint(0, 9)]]
    c3 = ["c", "<=", ["v", "a"], ["n", k + 3]]
    chain_items = [
        ["s", ["&&", c1, c2], ["n", 1]], ["s", ["||", c1, c2], ["n", 1]],
        ["p", ["&&", c1, c2], t1], ["p", ["||", c1, c2], t1],
        ["s", ["&&", ["&&", c1, c2], c3], ["v", "b"]], ["s", ["||", ["||", c1, c2], c3], ["v", "b"]],
        ["s", ["&&", c2, c1], ["n", 1]],
    ]
    import copy as _copy
    items += [_copy.deepcopy(x) for x in rng.sample(chain_items, k=rng.randint(2, 5))]
    rng.shuffle(items)
    for i, e in enumerate(items[: rng.randint(5, len(items))]):
        prog.append(["sig", "x%d" % i, e])
    if small:
        return _mk(prog, "cse_key_variants", rng, nval, edges={"a": list(range(0, 7)), "b": list(range(0, 7))}, small_domain=True)
    return _mk(prog, "cse_key_variants", rng, nval, edges={"a": list(range(-2, 12))})


def s_bundle_cse_variants(rng, nval):
    """Bundle filters / member-wise operations that differ in exactly one field (output mode, constant, operator)."""
    b = C02.B(rng)
    b.literal("r")
    op = rng.choice(CMP_OPS)
    k = rng.choice([0, 1, 2, 5, -1])
    aop = rng.choice(["+", "-", "*"])
    items = [
        ["bf", op, ["v", "r"], ["n", k], "copy"],
        ["bf", op, ["v", "r"], ["n", k], "copy"],
        ["bf", op, ["v", "r"], ["n", k], ["n", 1]],
        ["bf", op, ["v", "r"], ["n", k], ["n", rng.choice([2, 7, -1])]],
        ["bf", op, ["v", "r"], ["n", k + 1], "copy"],
        ["bf", rng.choice([o for o in CMP_OPS if o != op]), ["v", "r"], ["n", k], "copy"],
        ["bb", aop, ["v", "r"], ["n", 2]],
        ["bb", aop, ["v", "r"], ["n", 2]],
        ["bb", aop, ["v", "r"], ["n", 3]],
    ]
    rng.shuffle(items)
    for i, e in enumerate(items[: rng.randint(3, 7)]):
        b.prog.append(["bun", "x%d" % i, e])
    return _mk(b.prog, "bundle_cse_key_variants", rng, nval, small=True)


def s_folded_consumers(rng, nval):
    """Anonymous constant expressions (folded at IR level) consumed by each consumer kind."""
    types = gen.Types(rng)
    tk = types.fresh()
    c1, c2 = rng.randint(1, 20), rng.randint(1, 9)
    K = ["b", rng.choice(["+", "*", "-"]), ["t", tk, ["n", c1]], ["n", c2]]
    prog = [["input", "a", types.fresh(), gen.rand_value(rng, True)], ["input", "b", types.fresh(), rng.randint(0, 1)]]
    kinds = rng.sample(["arith", "decider", "sel", "enable", "merge", "bundle", "memdata", "latchval", "cmpfold"], k=4)
    k = 0
    for kd in kinds:
        if kd == "arith":
            prog.append(["sig", "ar", ["p", ["b", "+", ["v", "a"], K], types.fresh()]])
        elif kd == "decider":
            prog.append(["sig", "de", ["p", ["c", ">", ["v", "a"], K], types.fresh()]])
        elif kd == "sel":
            prog.append(["sig", "se", ["s", ["c", ">", ["v", "a"], ["n", 0]], ["p", K, types.fresh()]]])
        elif kd == "enable":
            prog.append(["place", "lamp", "small-lamp", ["n", 0], ["n", 20], None])
            prog.append(["set", "lamp", "enable", ["c", "<", ["v", "a"], K]])
        elif kd == "merge":
            t = types.fresh()
            prog.append(["input", "mg", t, rng.randint(1, 9)])
            prog.append(["sig", "me", ["b", "+", ["v", "mg"], ["p", K, t]]])
        elif kd == "bundle":
            prog.append(["bun", "bu", ["B", [["v", "a"], ["p", K, types.fresh()]]]])
        elif kd == "memdata":
            t = types.fresh()
            prog.append(["mem", "mm", t])
            prog.append(["write", "mm", ["p", K, t], ["v", "b"]])
            prog.append(["sig", "mr", ["p", ["r", "mm"], types.fresh()]])
        elif kd == "latchval":
            t = types.fresh()
            prog.append(["mem", "ml", t])
            prog.append(["latch", "ml", ["p", K, t], ["c", ">", ["v", "a"], ["n", 5]], ["c", "<", ["v", "a"], ["n", 0]], rng.choice(["sr", "rs"])])
            prog.append(["sig", "lr", ["p", ["r", "ml"], types.fresh()]])
        else:
            # comparison of anonymous typed constants selecting an input (folds at IR level)
            prog.append(["sig", "cf", ["s", ["c", ">", ["t", tk, ["n", c1 + 5]], ["n", c2]], ["v", "a"]]])
            prog.append(["sig", "cg", ["p", ["s", ["c", "<", ["t", tk, ["n", c1]], ["n", c2 - 30]], ["v", "a"]], types.fresh()]])
            # constant condition, computed (run-time) value: the fold may not turn the result into a constant
            prog.append(["sig", "dd", ["b", "*", ["v", "a"], ["n", 2]]])
            prog.append(["sig", "ch", ["s", ["c", ">", ["p", ["t", tk, ["n", c1 + 5]], types.fresh()], ["n", c2]], ["v", "dd"]]])
            prog.append(["sig", "ci", ["p", ["s", ["c", ">", ["t", tk, ["n", c1 + 5]], ["n", c2]], ["b", "+", ["v", "a"], ["n", 3]]], types.fresh()]])
        k += 1
    stateful_ = any(s[0] in ("mem",) for s in prog)
    return _mk(prog, "folded_constant_consumers", rng, nval, edges={"a": list(range(-3, 12)), "b": [0, 1]},
               stateful=stateful_)


def s_shared_anon_const(rng, nval):
    """One anonymous constant (a literal bound to a Signal parameter) read by a foldable operation AND by a
    consumer the folder does not rewrite (multi-row decider, wire merge, bundle, entity condition, memory write)."""
    types = gen.Types(rng)
    tp = types.fresh()
    v = rng.randint(2, 9)
    kind = rng.choice(["multicond", "merge", "bundle", "enable", "memdata", "cmpfold"])
    tc = tp if kind == "merge" else types.fresh()
    prog = [["input", "a", tc, rng.randint(0, 9)]]
    body = [["sig", "q", ["b", rng.choice(["*", "+", "-"]), ["v", "p"], ["n", rng.randint(2, 5)]]]]
    stateful_ = False
    if kind == "multicond":
        lg = rng.choice(["&&", "||"])
        r = ["s", [lg, ["c", ">", ["v", "p"], ["n", rng.randint(0, 9)]], ["c", ">", ["v", "c"], ["n", rng.randint(0, 5)]]], ["n", 1]]
        ret = ["b", "+", ["v", "q"], ["p", r, types.fresh()]]
    elif kind == "merge":
        ret = ["b", "+", ["p", ["v", "q"], types.fresh()], ["p", ["b", "+", ["v", "p"], ["v", "c"]], types.fresh()]]
    elif kind == "bundle":
        prog.append(["place", "lamp", "small-lamp", ["n", 0], ["n", 20], None])
        body.append(["bun", "bb", ["B", [["v", "p"], ["v", "c"]]]])
        body.append(["set", "lamp", "enable", [rng.choice(["any", "all"]), ">", ["v", "bb"], ["n", rng.randint(0, 8)]]])
        ret = ["v", "q"]
    elif kind == "enable":
        prog.append(["place", "lamp", "small-lamp", ["n", 0], ["n", 20], None])
        body.append(["set", "lamp", "enable", ["c", rng.choice([">", "<", "!="]), ["v", "p"], ["v", "c"]]])
        ret = ["v", "q"]
    elif kind == "memdata":
        body.append(["mem", "m", tp])
        body.append(["write", "m", ["v", "p"], ["c", ">", ["v", "c"], ["n", 0]]])
        ret = ["b", "+", ["v", "q"], ["p", ["r", "m"], types.fresh()]]
        stateful_ = True
    else:
        body.append(["sig", "z", ["c", ">", ["v", "p"], ["n", rng.randint(0, 9)]]])
        ret = ["b", "+", ["p", ["v", "q"], types.fresh()], ["b", "*", ["v", "c"], ["v", "z"]]]
    prog.append(["func", "f", [["Signal", "p"], ["Signal", "c"]], body, ret])
    prog.append(["sig", "x", ["p", ["call", "f", [["t", tp, ["n", v]], ["v", "a"]]], types.fresh()]])
    return _mk(prog, "shared_anonymous_constant:" + kind, rng, nval, edges={"a": list(range(-2, 11))}, stateful=stateful_)


def s_fanout(rng, nval):
    types = gen.Types(rng)
    prog = [["input", "a", types.fresh(), gen.rand_value(rng, True)]]
    t = types.fresh()
    prog.append(["sig", "src", ["p", ["b", "+", ["v", "a"], ["n", 1]], t]])
    n = rng.randint(2, 30)
    for i in range(n):
        prog.append(["sig", "f%d" % i, ["p", ["b", rng.choice(["+", "*", "-"]), ["v", "src"], ["n", i + 1]], types.fresh()]])
    return _mk(prog, "fanout", rng, nval)


def from_other(mod_fn, name):
    def f(rng, nval):
        c = mod_fn(rng, nval)
        c["stratum"] = name + ":" + c["stratum"]
        return c
    return f


def s_c03(rng, nval):
    st = rng.choice(["basic", "shared_input", "enable_shared", "multi_cell", "multi_cell_same_enable", "multi_cell_same_enable"])
    prog, edges = C03.build(rng, st)
    return _mk(prog, "C03:" + st, rng, nval, edges=edges, history=True, nsteps=rng.randint(8, 20))


def s_c05(rng, nval):
    kind = rng.choice(C05.KINDS)
    order = rng.choice(["sr", "rs"])
    prog, edges, _vk = C05.build(rng, kind, order)
    return _mk(prog, "C05:%s_%s" % (kind, order), rng, nval, edges=edges, history=True, nsteps=rng.randint(10, 24))


STRATA = [(s_cse_variants, 5), (s_bundle_cse_variants, 3), (s_folded_consumers, 5), (s_shared_anon_const, 4), (s_fanout, 2),
          (from_other(C01.s_dag_distinct, "C01"), 4), (from_other(C01.s_dag_same, "C01"), 1),
          (from_other(C01.s_logic_chain, "C01"), 2), (from_other(C01.s_sel, "C01"), 2),
          (from_other(C01.s_sel_same_typed, "C01"), 2), (from_other(C01.s_two_producers, "C01"), 2),
          (from_other(C01.s_wire_merge, "C01"), 1), (from_other(C01.s_const_heavy, "C01"), 2),
          (from_other(C02.s_chain, "C02"), 2), (from_other(C02.s_gate_shared_cond, "C02"), 2), (from_other(C02.s_filter, "C02"), 1), (from_other(C02.s_arith, "C02"), 1),
          (from_other(C06.s_noninline, "C06"), 1), (from_other(C06.s_shared_cmp, "C06"), 1),
          (from_other(C06.s_fanout, "C06"), 1), (from_other(C06.s_chest, "C06"), 1),
          (s_c03, 4), (s_c05, 3)]


def gen_cases(tier, seed):
    n = 280 if tier == "quick" else 3000
    nval = 12 if tier == "quick" else 32
    rng = random.Random(10000019 * seed + 23)
    weights = [w for _f, w in STRATA]
    cases = []
    for i in range(n):
        f = rng.choices([f for f, _w in STRATA], weights)[0]
        sub = random.Random(rng.randrange(1 << 60))
        c = f(sub, nval)
        c["id"] = i
        cases.append(c)
    for op in ["+", "-", "*", "/", "%", "**", "<<", ">>", "AND", "OR", "XOR"]:
        for _rep in range(1 if tier == "quick" else 6):
            c = C01.s_commuted(random.Random(rng.randrange(1 << 60)), nval, op)
            c["id"] = len(cases)
            cases.append(c)
    return cases


def run_history_twin(case):
    prog = case["prog"]
    shape = lang.shape_of(prog)
    base = {"shape": shape, "stratum": case["stratum"]}
    exs = {}
    srcs = {}
    for opt in (True, False):
        src, _l, b = sem.compile_prog(prog, dict(case, optimize=opt))
        if not b.ok:
            return dict(base, verdict="vacuous", why="rejected (optimize=%s): %s" % (opt, str(b.error)[:200]), src=src)
        exs[opt] = sem.Exec(b, prog)
        srcs[opt] = src
    rng = random.Random(case["vseed"])
    total = 0
    nontrivial = False
    for _h in range(2):
        steps = C03.make_history(prog, case.get("edges") or {}, case["nsteps"], rng)
        recs = {}
        for opt in (True, False):
            recs[opt], _sim = stateful.held_history(exs[opt], "phys", steps)
        total += 2 * len(steps)
        for i, (ra, rb) in enumerate(zip(recs[True], recs[False])):
            if ra["missing"] or rb["missing"]:
                return dict(base, verdict="inconclusive", why="declared input not found by label", evaluations=total)
            oa = {"settled": ra["settle"] if ra["stable"] else None, "out": ra["obs"], "const": {}}
            ob = {"settled": rb["settle"] if rb["stable"] else None, "out": rb["obs"], "const": {}}
            d = sem.diff_observations(oa, ob, strict="lost")
            if any(v.get("signals") for v in ra["obs"].values()):
                nontrivial = True
            if d:
                # stage: logical executions of both builds
                lrecs = {}
                for opt in (True, False):
                    lrecs[opt], _s = stateful.held_history(exs[opt], "log", steps)
                la, lb = lrecs[True][i], lrecs[False][i]
                ld = sem.diff_observations({"settled": la["settle"], "out": la["obs"], "const": {}},
                                           {"settled": lb["settle"], "out": lb["obs"], "const": {}})
                from .. import wiring

                if ld:
                    stage = "upstream"
                elif all(wiring.physical_partition(e.build.bp) == wiring.planned_partition(e.build.bp, e.build.cap)
                         for e in exs.values()):
                    stage = sem.K1
                else:
                    stage = "wiring"
                res = dict(base, verdict="violated", nontrivial=True, evaluations=total,
                           witness={"source": srcs[True], "history": steps, "step": i, "differences": d[:3], "stage": stage},
                           why="history twin/%s step %d: %s" % (stage, i, str(d[0])[:250]))
                if stage == sem.K1:
                    res["finding"] = sem.K1
                return res
    return dict(base, verdict="held", nontrivial=nontrivial, evaluations=total, monitors={"plan": 2},
                sample={"source": srcs[True], "history_steps": case["nsteps"]})


def run_case(case):
    if case.get("history") or case.get("stateful"):
        if not case.get("history"):
            case = dict(case, nsteps=12)
        return run_history_twin(case)
    chests = None
    if case.get("chests"):
        rng = random.Random(case["vseed"] ^ 0x5A5A)
        vals = gen.valuations(case["prog"], case["nval"], random.Random(case["vseed"]), small=case.get("small", False),
                              edges=case.get("edges"))
        chests = C06.chests_fn(case, vals, rng)
        return _twin(case, vals=vals, chests=chests)
    return _twin(case)


def _twin(case, **kw):
    res = sem.run_twin_case(case, case["prog"], {"optimize": True}, case["prog"], {"optimize": False},
                            label_a="optimize", label_b="no-optimize", strict_names="lost", **kw)
    if res.get("verdict") == "violated" and (res.get("witness") or {}).get("oracle") == "reference":
        # the optimised build deviates from the reference semantics; if the unoptimised build deviates in the same
        # way the optimiser changed nothing (C01 / C02 decide such programs): finish the twin comparison alone
        note = "both builds deviate identically from the reference semantics: %s" % res.get("why", "")[:200]
        res2 = sem.run_twin_case(case, case["prog"], {"optimize": True}, case["prog"], {"optimize": False},
                                 label_a="optimize", label_b="no-optimize", strict_names="lost", reference=False, **kw)
        if res2.get("verdict") == "held":
            res2["common_deviation"] = note
            return res2
        return res2 if res2.get("verdict") == "violated" else res
    return res
