"""C08 - every emitted blueprint can be pasted: no overlaps, all wires reach."""
from __future__ import annotations

import collections
import hashlib
import json
import random

from .. import biggen, driver, geom, lang, sem
from . import C03, C05

PROPERTY = "C08"
LEVEL = "fault_enumeration"
TIMEOUT = 600
BUDGET = {"quick": 600, "thorough": 3600}
NSAMPLES = 3
RULE = ("Fault enumeration over layout outcomes: generated programs (expression DAGs, memory cells and latches with "
        "their explicit module wires, fan-out 2-40, user entities up to 60 tiles apart and at negative "
        "coordinates, multi-tile prototypes; 5-400 entities) x power-pole option {none, small, medium, big, "
        "substation} x optimise on/off x injected CP-SAT schedules {first feasible solution for a seed, "
        "deterministic-time budgets 0.01..1, the first k solves reporting UNKNOWN (k = 1, 2, 5), untouched "
        "default solver under 16-way load} x max_layout_retries {0, 1, 3}. Every emitted blueprint is checked: no "
        "two collision boxes (game data, rotated by direction) intersect; every wire joins two existing entities "
        "at connectors the prototypes have with one colour class at both ends; every circuit wire is within the "
        "reach of both endpoints; the connector partition of the emitted wires (poles contracted) equals the "
        "partition of the planner's recorded edge list (relays join nothing); the RelayNode invariant (<= 1 "
        "network per colour) held. evaluations = compilations checked; distinct non-trivial = distinct (program, "
        "configuration) pairs whose blueprint has at least one wire and 5 entities.")
ASSUMPTIONS = [
    "collision boxes, wire reach and connector sets come from draftsman's shipped game data (fverif/protos.py); wire length is centre-to-centre Euclidean",
    "injected schedules are outcomes the unmodified CP-SAT model can legitimately produce (first feasible solution, time-limited search, timed-out strategy)",
    "a configuration the compiler rejects (e.g. no feasible layout) emits no blueprint and is vacuous for this property",
]

F_MODULE_WIRE = "C08-explicit-module-wire-exceeds-reach"

POLES = [None, None, "small", "medium", "big", "substation"]


def _mk(prog, stratum, rng, configs, **kw):
    c = {"stratum": stratum, "prog": prog, "configs": configs, "pseed": rng.randrange(1 << 30)}
    c.update(kw)
    return c


def configs_for(rng, n, heavy=False):
    out = []
    for _ in range(n):
        k = rng.random()
        if k < 0.45:
            sched = ["first", rng.randrange(1 << 30)]
        elif k < 0.65:
            sched = ["budget", rng.choice([0.01, 0.05, 0.2, 1.0]), rng.randrange(1 << 30)]
        elif k < 0.85:
            sched = ["fail", rng.choice([1, 1, 2, 5]), rng.randrange(1 << 30)]
        else:
            sched = ["default"] if not heavy else ["first", rng.randrange(1 << 30)]
        out.append({"poles": rng.choice(POLES), "optimize": rng.random() < 0.7, "schedule": sched,
                    "retries": rng.choice([0, 1, 3, 3])})
    return out


def gen_cases(tier, seed):
    rng = random.Random(8000009 * seed + 61)
    cases = []
    n = 56 if tier == "quick" else 500
    for i in range(n):
        sub = random.Random(rng.randrange(1 << 60))
        r = sub.random()
        if r < 0.45:
            prog = biggen.mixed_program(sub, "small", far=sub.random() < 0.4)
            st = "mixed_small"
        elif r < 0.8:
            prog = biggen.mixed_program(sub, "medium", far=sub.random() < 0.5)
            st = "mixed_medium"
        elif r < 0.9:
            prog = biggen.fanout_program(sub, sub.randint(2, 40))
            st = "fanout"
        elif r < 0.96 or tier == "quick":
            kind = sub.choice(C05.KINDS)
            prog, _e, _vk = C05.build(sub, kind, sub.choice(["sr", "rs"]))
            p2, _e2 = C03.build(sub, "multi_cell")
            prog = prog + [s for s in p2 if s[0] != "input" or s[1] not in {x[1] for x in prog}]
            st = "latches_and_cells"
        else:
            prog = biggen.mixed_program(sub, "large", far=True)
            st = "mixed_large"
        ncfg = 4 if tier == "quick" else 8
        cases.append(_mk(prog, st, sub, configs_for(sub, ncfg, heavy=(st == "mixed_large"))))
    for i, c in enumerate(cases):
        c["id"] = i
    return cases


def layout_signature(bp):
    b = bp["blueprint"]
    pos = sorted((e["name"], e["position"]["x"], e["position"]["y"]) for e in b.get("entities", []))
    return hashlib.sha1(json.dumps(pos).encode()).hexdigest()[:12]


def run_case(case):
    prog = case["prog"]
    src, _lines = lang.to_source(prog, random.Random(case["pseed"]))
    base = {"shape": lang.shape_of(prog), "stratum": case["stratum"]}
    stats = collections.Counter()
    sigs = set()
    problems = None
    nontrivial_cfgs = 0
    sample = None
    for cfg in case["configs"]:
        b = driver.compile_source(src, optimize=cfg["optimize"], poles=cfg["poles"], schedule=tuple(cfg["schedule"]),
                                  retries=cfg["retries"])
        stats["compilations"] += 1
        stats["schedule_" + cfg["schedule"][0]] += 1
        for s in b.solves:
            stats["solver_status_%d" % s["status"]] += 1
        if not b.ok:
            stats["rejected"] += 1
            stats["rejected:" + str(b.error)[:60]] += 1
            continue
        bp = b.bp["blueprint"]
        ents = bp.get("entities", [])
        stats["entities"] += len(ents)
        relays = [p for p, v in (b.cap or {}).get("placements", {}).items() if v.get("role") == "wire_relay"]
        stats["relays"] += len(relays)
        stats["attempts"] += (b.cap or {}).get("attempts", 0)
        if (b.cap or {}).get("attempts", 0) > 1:
            stats["retried_layouts"] += 1
        sigs.add(layout_signature(b.bp))
        if len(ents) >= 5 and bp.get("wires"):
            nontrivial_cfgs += 1
        probs = geom.check_pasteable(b.bp, b.cap)
        if probs and problems is None:
            problems = (cfg, probs, len(ents), len(relays))
        if sample is None and relays:
            sample = {"source": src[:1500], "config": cfg, "entities": len(ents), "relays": len(relays),
                      "wires": len(bp.get("wires") or [])}
    base["evaluations"] = stats["compilations"]
    base["monitors"] = {"plan": stats["compilations"] - stats["rejected"], "solver": sum(v for k, v in stats.items() if k.startswith("solver_status"))}
    base["layout_stats"] = dict(stats)
    base["distinct_layouts"] = len(sigs)
    if problems is not None:
        cfg, probs, nents, nrel = problems
        res = dict(base, verdict="violated", nontrivial=True,
                   why="%s" % (probs[0],), witness={"source": src, "config": cfg, "problems": probs[:6], "entities": nents, "relays": nrel})
        if all(p.get("what") == "circuit wire longer than reach" and p.get("explicit_module_wire") for p in probs):
            res["finding"] = F_MODULE_WIRE
        return res
    if stats["compilations"] == stats["rejected"]:
        return dict(base, verdict="vacuous", why="every configuration rejected: %s" % [k for k in stats if k.startswith("rejected:")][:2])
    # distinct (program, config) pairs: shape extended with the number of non-trivial configurations
    return dict(base, verdict="held", nontrivial=nontrivial_cfgs > 0,
                sample=sample or {"source": src[:800], "configs": case["configs"][:2]})


def summarize(results):
    tot = collections.Counter()
    layouts = 0
    for _c, r in results:
        if not r:
            continue
        for k, v in (r.get("layout_stats") or {}).items():
            if not k.startswith("rejected:"):
                tot[k] += v
        layouts += r.get("distinct_layouts", 0)
    return {"layout_outcomes": dict(tot), "distinct_layouts_total": layouts}
