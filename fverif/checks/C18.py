"""C18 - requested power poles power everything and form one grid."""
from __future__ import annotations

import collections
import random
import re

from .. import biggen, canon, driver, geom, lang, protos
from . import C09

PROPERTY = "C18"
LEVEL = "exploration"
TIMEOUT = 600
BUDGET = {"quick": 600, "thorough": 3600}
RULE = ("Generated programs (5-400 entities: expression DAGs, memory cells, latches, user entities far from the "
        "origin and at negative coordinates) are compiled by the real compiler with --power-poles T for T in "
        "{small, medium, big, substation} and without the option, under injected solver schedules. With the option: "
        "every entity with an electric energy source (game data) must have its collision box intersecting the "
        "supply square of a pole of type T; all poles must form one component under copper wires, each within the "
        "reach of both ends; the canonical logical circuit (configured entities + connector partition, poles "
        "contracted) and the user-entity multiset must equal those of the pole-free build of the same source. "
        "Without the option the only poles are circuit relays. evaluations = compilations; non-trivial = a build "
        "with at least 5 electric consumers.")
ASSUMPTIONS = [
    "supply_area_distance, maximum_wire_distance, collision boxes and energy sources from draftsman's shipped game data",
    "an entity is powered when its collision box has a positive-area intersection with a pole's supply square",
]

F_COVER = "C18-no-free-tile-for-a-pole-next-to-a-consumer"
_RE_NOFREE = re.compile(r"No free tile for a (\w+) power pole near \(([-\d.]+), ([-\d.]+)\)")
TYPES = ["small", "medium", "big", "substation"]


def gen_cases(tier, seed):
    rng = random.Random(18000041 * seed + 71)
    n = 36 if tier == "quick" else 360
    cases = []
    for i in range(n):
        sub = random.Random(rng.randrange(1 << 60))
        size = sub.choice(["small", "small", "medium", "medium", "large"] if tier == "thorough" else ["small", "medium", "medium"])
        prog = biggen.mixed_program(sub, size, far=sub.random() < 0.5)
        sched = sub.choice([["first", sub.randrange(1 << 30)], ["first", sub.randrange(1 << 30)], ["budget", 0.5, 7]])
        cases.append({"id": i, "stratum": "mixed_" + size, "prog": prog, "pseed": sub.randrange(1 << 30),
                      "schedule": sched, "optimize": sub.random() < 0.8,
                      "types": TYPES if tier == "thorough" else sub.sample(TYPES, k=3)})
    return cases


def run_case(case):
    prog = case["prog"]
    src, _l = lang.to_source(prog, random.Random(case["pseed"]))
    base = {"shape": lang.shape_of(prog), "stratum": case["stratum"]}
    sched = tuple(case["schedule"])
    b0 = driver.compile_source(src, optimize=case["optimize"], poles=None, schedule=sched)
    n_comp = 1
    if not b0.ok:
        return dict(base, verdict="vacuous", why="pole-free build rejected: " + str(b0.error)[:200], evaluations=1)
    ents0 = b0.bp["blueprint"]["entities"]
    relay_ids = {i for i, v in (b0.cap or {}).get("placements", {}).items() if v.get("role") == "wire_relay"}
    ids0 = (b0.cap or {}).get("ids") or []
    for idx, e in enumerate(ents0):
        if protos.is_pole(e["name"]):
            pid = ids0[idx] if idx < len(ids0) else None
            role = (b0.cap or {}).get("placements", {}).get(pid, {}).get("role")
            if role not in ("wire_relay", "user_entity"):
                return dict(base, verdict="violated", nontrivial=True, evaluations=1,
                            why="pole %s emitted without --power-poles and it is not a relay" % e["name"],
                            witness={"source": src[:2000], "entity": e})
    sig0 = canon.signature(b0.bp)
    users0 = C09.observed_multiset(b0)
    consumers = 0
    sample = None
    listed = []     # clause failures that are listed findings (coverage / one grid)
    stats = collections.Counter()
    for t in case["types"]:
        b = driver.compile_source(src, optimize=case["optimize"], poles=t, schedule=sched)
        n_comp += 1
        if not b.ok:
            stats["rejected"] += 1
            continue
        probs = geom.power_problems(b.bp, t)
        wp = [p for p in geom.wire_problems(b.bp, b.cap) if "copper" in p["what"]]
        cons = [e for e in b.bp["blueprint"]["entities"] if protos.is_electric_consumer(e["name"])]
        consumers = max(consumers, len(cons))
        witness = {"source": src[:2500], "pole_type": t, "schedule": case["schedule"]}
        uncovered = [p for p in probs if p["what"].startswith("electric entity outside")]
        split = [p for p in probs if p["what"].startswith("poles form")]
        stats["builds"] += 1
        stats["consumers"] += len(cons)
        stats["uncovered"] += len(uncovered)
        stats["split_grids"] += 1 if split else 0
        if wp:
            return dict(base, verdict="violated", nontrivial=True, evaluations=n_comp,
                        why="poles=%s: %s" % (t, wp[0]), witness=dict(witness, problems=wp[:5]))
        sig = canon.signature(b.bp)
        if sig["sig"] != sig0["sig"]:
            return dict(base, verdict="violated", nontrivial=True, evaluations=n_comp,
                        why="poles=%s: logical circuit differs from the pole-free build" % t,
                        witness=dict(witness, difference=canon.explain_difference(b0.bp, b.bp)))
        users = C09.observed_multiset(b)
        if users != users0:
            return dict(base, verdict="violated", nontrivial=True, evaluations=n_comp,
                        why="poles=%s: user entities differ from the pole-free build" % t,
                        witness=dict(witness, missing=list((users0 - users).items())[:4], extra=list((users - users0).items())[:4]))
        # The listed finding is the situation the compiler itself announces: no free tile of the pole's footprint
        # within the supply distance of a consumer (dense layout, 2x2 poles with a 4x4 supply area).  An uncovered
        # consumer WITHOUT that announcement, and any split grid, is a violation.
        text = "\n".join(b.diags or [])
        warned = {(float(x), float(y)) for _t, x, y in _RE_NOFREE.findall(text)}
        unexplained = [p for p in uncovered
                       if (float(p["entity"][2]["x"]), float(p["entity"][2]["y"])) not in warned]
        if unexplained:
            return dict(base, verdict="violated", nontrivial=True, evaluations=n_comp,
                        why="poles=%s: %s (and the compiler reports no placement problem for it)" % (t, unexplained[0]),
                        witness=dict(witness, problems=unexplained[:5], warned=sorted(warned)[:8]))
        if split:
            return dict(base, verdict="violated", nontrivial=True, evaluations=n_comp,
                        why="poles=%s: %s" % (t, split[0]), witness=dict(witness, problems=split[:2]))
        if uncovered:
            listed.append((F_COVER, t, uncovered[:3], witness))
        if sample is None and not probs:
            npoles = len([e for e in b.bp["blueprint"]["entities"] if e["name"] == protos.POLE_TYPES[t]])
            sample = {"source": src[:800], "pole_type": t, "poles": npoles, "entities": len(b.bp["blueprint"]["entities"]),
                      "electric_consumers": len(cons)}
    base["power_stats"] = dict(stats)
    if listed:
        fid, t, pr, witness = listed[0]
        return dict(base, verdict="violated", nontrivial=True, evaluations=n_comp, finding=fid,
                    why="poles=%s: %s" % (t, pr[0]), witness=dict(witness, problems=pr, all_listed=[(f, tt) for f, tt, _p, _w in listed]))
    return dict(base, verdict="held", nontrivial=consumers >= 5, evaluations=n_comp, monitors={"plan": n_comp},
                sample=sample or {"source": src[:600]})


def summarize(results):
    tot = collections.Counter()
    for _c, r in results:
        if r:
            for k, v in (r.get("power_stats") or {}).items():
                tot[k] += v
    return {"power_totals": dict(tot)}
