"""C04 - self-referential writes iterate the written function exactly."""
from __future__ import annotations

import random

from ..lang import CMP_OPS
from .. import gen, lang, sem, stateful, wiring

PROPERTY = "C04"
LEVEL = "exploration"
TIMEOUT = 240
BUDGET = {"quick": 600, "thorough": 3600}
RULE = ("[loop bodies include comparison-based forms: (m < 5) * 7, 12 - (m > lim) * 5, (m < 9) : m + 1, m == 0] "
        "Seeded random programs with unconditional self-referential writes `m.write(f(m.read()))` (f: chain of 1-8 "
        "arithmetic steps over the cell, constants and held inputs: counters, modulo clocks, accumulators, "
        "LFSR-style mixes; reads at one or several chain points; identity readers and derived readers; one or two "
        "cells), compiled with optimisation on and off. The blueprint runs from the all-zero state for 12*Lmax "
        "ticks with constant inputs; the oracle requires a round-trip latency L in 1..Lmax (the same at every "
        "identity reader) with trace[t+L] == f(trace[t]) for every tick after the reader's own delay, f taken "
        "from the reference semantics, and the optimised and unoptimised traces to agree up to a shift. "
        "evaluations = ticks executed; non-trivial = the trace takes at least 3 distinct values.")
ASSUMPTIONS = [
    "circuit model fverif/fsim.py (one tick per combinator)",
    "an identity reader is `m.read() | \"type\"` (or an alias of the read); it may lag the cell by up to 3 ticks, which the oracle allows as a prefix",
    "f avoids shift amounts outside 0..31, negative exponents and INT_MIN/-1",
]

LMAX_EXTRA = 3


def _mk(prog, stratum, rng, **kw):
    c = {"stratum": stratum, "prog": prog, "vseed": rng.randrange(1 << 30),
         "sseed": rng.randrange(1 << 30), "pseed": rng.randrange(1 << 30)}
    c.update(kw)
    return c


def step_expr(rng, cur, held):
    k = rng.choice(["inc", "mul", "mod", "xor", "shr", "addheld", "sub", "and", "cmpmul", "ksub", "sel", "cmp", "cmpheld"])
    cmp_ = ["c", rng.choice(CMP_OPS), cur, ["n", rng.randint(0, 9)]]
    if k == "cmpmul":      # the cell is read through a comparison only: (m < 5) * 7
        return ["b", "*", cmp_, ["n", rng.choice([1, 2, 7, -3])]]
    if k == "ksub":        # 12 - (m > limit) * 5
        lim = ["v", rng.choice(held)] if held and rng.random() < 0.5 else ["n", rng.randint(0, 9)]
        return ["b", "-", ["n", rng.randint(5, 15)], ["b", "*", ["c", ">", cur, lim], ["n", rng.randint(1, 6)]]]
    if k == "sel":         # (m < 9) : m + 1
        return ["s", cmp_, ["b", "+", cur, ["n", rng.randint(1, 3)]]]
    if k == "cmp":         # m == 0
        return cmp_
    if k == "cmpheld" and held:
        return ["b", "+", ["c", rng.choice(CMP_OPS), cur, ["v", rng.choice(held)]], ["n", rng.randint(0, 3)]]
    if k == "inc":
        return ["b", "+", cur, ["n", rng.randint(1, 9)]]
    if k == "mul":
        return ["b", "*", cur, ["n", rng.choice([2, 3, 5, 7, -3])]]
    if k == "mod":
        return ["b", "%", cur, ["n", rng.choice([7, 10, 17, 100, 1000, 65521])]]
    if k == "xor":
        return ["b", "XOR", cur, ["n", rng.choice([1, 5, 0xA5, 0x5555, 12345])]]
    if k == "shr":
        return ["b", ">>", cur, ["n", rng.randint(1, 5)]]
    if k == "sub":
        return ["b", "-", cur, ["n", rng.randint(1, 9)]]
    if k == "and":
        return ["b", "AND", cur, ["n", rng.choice([0xFF, 0xFFFF, 0x7FFFFFFF, 1023])]]
    if held:
        return ["b", "+", cur, ["v", rng.choice(held)]]
    return ["b", "+", cur, ["n", 1]]


def build(rng, stratum):
    types = gen.Types(rng)
    prog = []
    held = []
    if stratum in ("accumulator", "two_cells") or rng.random() < 0.3:
        prog.append(["input", "h0", types.fresh(), rng.randint(1, 9)])
        held.append("h0")
    ncell = 2 if stratum == "two_cells" else 1
    meta = []
    for ci in range(ncell):
        t = types.fresh()
        m = "m%d" % ci
        if held and rng.random() < 0.5:
            # a computed addend on the CELL's own signal type (must reach the loop on the other wire colour)
            prog.append(["sig", "hc%d" % ci, ["p", ["b", "+", ["v", held[0]], ["n", rng.randint(1, 5)]], t]])
            held = [h for h in held if not h.startswith("hc")] + ["hc%d" % ci]
        prog.append(["mem", m, t])
        if rng.random() < 0.35:
            # a reader of the cell declared BEFORE the write statement (arithmetic, comparison or alias)
            ek = rng.choice(["arith", "arith", "cmp", "alias"])
            if ek == "arith":
                prog.append(["sig", "early%d" % ci, ["p", ["b", rng.choice(["*", "+"]), ["r", m], ["n", rng.randint(2, 6)]], types.fresh()]])
            elif ek == "cmp":
                prog.append(["sig", "early%d" % ci, ["p", ["c", ">", ["r", m], ["n", rng.randint(0, 9)]], types.fresh()]])
            else:
                prog.append(["sig", "early%d" % ci, ["p", ["r", m], types.fresh()]])
        n = {"single": 1, "accumulator": 1}.get(stratum, rng.randint(1, 8))
        if stratum == "inline":
            # one expression, all steps inline
            cur = ["r", m]
            for _ in range(n):
                cur = step_expr(rng, cur, held)
                if rng.random() < 0.5:
                    cur = ["p", cur, t]
            prog.append(["write", m, ["p", cur, t], None])
            chain_len = n
        else:
            cur = ["r", m]
            names = []
            for j in range(n):
                nm = "s%d_%d" % (ci, j)
                e = step_expr(rng, cur, held)
                prog.append(["sig", nm, ["p", e, t]])
                names.append(nm)
                cur = ["v", nm]
            prog.append(["write", m, cur, None])
            chain_len = n
            if stratum == "chain_tapped" and names:
                tap = rng.choice(names)
                prog.append(["sig", "tap%d" % ci, ["p", ["b", "+", ["v", tap], ["n", 0]], types.fresh()]])
        rid = "rid%d" % ci
        prog.append(["sig", rid, ["p", ["r", m], types.fresh()]])
        ids = [rid]
        if rng.random() < 0.5:
            prog.append(["sig", "rid%db" % ci, ["p", ["r", m], types.fresh()]])
            ids.append("rid%db" % ci)
        if rng.random() < 0.5:
            prog.append(["sig", "rder%d" % ci, ["p", ["c", "<", ["b", "%", ["r", m], ["n", 10]], ["n", 5]], types.fresh()]])
        meta.append({"mem": m, "chain": chain_len, "ids": ids})
    return prog, meta


STRATA = ["single", "chain", "chain", "inline", "chain_tapped", "accumulator", "two_cells"]


def gen_cases(tier, seed):
    n = 150 if tier == "quick" else 1500
    rng = random.Random(4000037 * seed + 11)
    cases = []
    for i in range(n):
        st = rng.choice(STRATA)
        sub = random.Random(rng.randrange(1 << 60))
        prog, meta = build(sub, st)
        c = _mk(prog, st + ("_skewed" if skewed_cells(prog) else ""), sub, meta=meta, nval=2 if tier == "quick" else 4)
        c["id"] = i
        cases.append(c)
    return cases


def f_of(prog, inputs, mem_name, x, other_state):
    """Reference f: value written to mem_name when its cell reads x."""
    it0 = lang.Interp(prog, dict(inputs)).run()
    mid = next(k for k, v in it0.mems.items() if v["name"] == mem_name)
    st = dict(other_state)
    st[mid] = x
    it = lang.Interp(prog, dict(inputs), mem=st).run()
    for m_, kind, data, en, _s in it.writes:
        if m_ == mid:
            return data.value
    raise KeyError(mem_name)


def find_latency(tr, f, lmax, dmax=4):
    """Smallest (L, D) with tr[t+L] == f(tr[t]) for all t in [D, len-L)."""
    n = len(tr)
    cache = {}

    def ff(x):
        if x not in cache:
            cache[x] = f(x)
        return cache[x]

    for L in range(1, lmax + 1):
        for D in range(0, dmax + 1):
            if n - L - D < 2 * L + 4:
                continue
            if all(tr[t + L] == ff(tr[t]) for t in range(D, n - L)):
                return L, D
    return None


F_SKEW = "C04-unbalanced-read-paths-in-the-loop"


def skewed_cells(prog):
    """Cells whose written expression reads the cell through paths of different combinator depth.

    depth(read)=0, constants / held inputs are depth-free; a combinator's signal operands that depend on the cell must
    all have the same depth, otherwise it combines the cell's value of tick t with that of tick t-k."""
    out = set()
    for s in prog:
        if s[0] != "mem":
            continue
        mem = s[1]
        env = {}
        flag = [False]

        def depth(e):
            k = e[0]
            if k == "r":
                return 0 if e[1] == mem else None
            if k == "v":
                return env.get(e[1])
            if k == "n":
                return None
            if k == "p":
                return depth(e[1])
            if k in ("b", "c"):
                ds = [d for d in (depth(e[2]), depth(e[3])) if d is not None]
            elif k == "s":
                ds = [d for d in (depth(e[1][2]), depth(e[1][3]), depth(e[2])) if d is not None]
            elif k in ("!", "neg"):
                ds = [d for d in (depth(e[1]),) if d is not None]
            elif k in ("&&", "||"):
                ds = [d for d in (depth(e[1]), depth(e[2])) if d is not None]
                if len(ds) > 1:
                    flag[0] = True
            else:
                ds = []
            if not ds:
                return None
            if len(set(ds)) > 1:
                flag[0] = True
            return max(ds) + 1

        for st in prog:
            if st[0] == "sig":
                was = flag[0]
                env[st[1]] = depth(st[2])
                if env[st[1]] is None:
                    flag[0] = was
            elif st[0] == "write" and st[1] == mem:
                depth(st[2])
        # only skews inside the cone of the write count; approximated by: any skew in an expression that depends on the cell
        if flag[0]:
            out.add(mem)
    return out


def analyse(ex, which, prog, meta, inputs, case):
    # a step may lower to up to three combinators (comparison, multiplication, subtraction)
    lmax = 3 * max(m["chain"] for m in meta) + LMAX_EXTRA
    ticks = 12 * lmax
    rows, missing, _sim = stateful.trace(ex, which, inputs, ticks)
    if missing:
        return None, "declared input(s) %s not found by their label" % missing
    problems = []
    info = {}
    traces = {}
    for m in meta:
        if len(meta) > 1:
            # cells are independent in the generated programs (no cross reads)
            pass

        def f(x, mem=m["mem"]):
            return f_of(prog, inputs, mem, x, {})

        Ls = {}
        for rid in m["ids"]:
            types_ = None
            tr = []
            for r in rows:
                v = stateful.value_of(r.get(rid), types_)
                tr.append(v)
            if any(v is None for v in tr):
                problems.append({"reader": rid, "what": "reader not observable"})
                continue
            traces[rid] = tr
            try:
                got = find_latency(tr, f, lmax)
            except lang.Unspec:
                return None, "unspecified arithmetic reached"
            if got is None:
                problems.append({"reader": rid, "what": "no latency L in 1..%d with trace[t+L]=f(trace[t])" % lmax,
                                 "trace": tr[: 4 * lmax]})
            else:
                Ls[rid] = got
        if len({v[0] for v in Ls.values()}) > 1:
            problems.append({"what": "readers of one cell disagree on the round-trip latency", "L": Ls})
        info[m["mem"]] = Ls
    return {"problems": problems, "L": info, "traces": traces}, None


def shift_equal(a, b, maxshift=12):
    n = min(len(a), len(b))
    for s in range(0, maxshift + 1):
        if a[s:n] == b[: n - s] or b[s:n] == a[: n - s]:
            return True
    return False


def run_case(case):
    prog, meta = case["prog"], case["meta"]
    shape = lang.shape_of(prog)
    base = {"shape": shape, "stratum": case["stratum"]}
    builds = {}
    src = None
    for opt in (True, False):
        c2 = dict(case, optimize=opt)
        src, _lines, b = sem.compile_prog(prog, c2)
        if not b.ok:
            return dict(base, verdict="vacuous", why="rejected (optimize=%s): %s" % (opt, str(b.error)[:300]), src=src)
        builds[opt] = sem.Exec(b, prog)
    rng = random.Random(case["vseed"])
    vals = gen.valuations(prog, case["nval"], rng, small=True)
    ticks = 0
    nontrivial = False
    sample = None
    for val in vals:
        res = {}
        for opt in (True, False):
            ex = builds[opt]
            r, und = analyse(ex, "phys", prog, meta, val, case)
            if und:
                return dict(base, verdict="inconclusive", why=und, src=src, evaluations=ticks)
            res[opt] = r
            ticks += 12 * (3 * max(m["chain"] for m in meta) + LMAX_EXTRA)
            if r["problems"]:
                lr, _ = analyse(ex, "log", prog, meta, val, case)
                b = ex.build
                # classify per failing reader: fails in the logical execution too -> upstream of wiring;
                # only in the physical one -> wiring (K1 when the emitted partition is the planned one)
                phys_bad = {pr.get("reader") for pr in r["problems"] if pr.get("reader")}
                anon = [pr for pr in r["problems"] if not pr.get("reader")]
                log_bad = None if lr is None else {pr.get("reader") for pr in lr["problems"] if pr.get("reader")}
                faithful = wiring.physical_partition(b.bp) == wiring.planned_partition(b.bp, b.cap)
                skew = skewed_cells(prog)
                skew_readers = {rid for m in meta if m["mem"] in skew for rid in m["ids"]}
                if log_bad is None or anon:
                    upstream_r, wiring_r = phys_bad, set()
                else:
                    upstream_r, wiring_r = phys_bad & log_bad, phys_bad - log_bad
                if wiring_r and not faithful:
                    stage = "wiring"
                elif upstream_r and not (upstream_r <= skew_readers):
                    stage = "upstream"
                elif anon:
                    stage = "upstream"
                elif wiring_r:
                    stage = sem.K1
                else:
                    stage = F_SKEW
                witness = {"source": src, "optimize": opt, "inputs": val, "problems": r["problems"][:3], "stage": stage,
                           "readers_failing_in_logical_execution_too": sorted(upstream_r), "readers_failing_physically_only": sorted(wiring_r)}
                out = dict(base, verdict="violated", nontrivial=True, witness=witness, evaluations=ticks,
                           why="%s (optimize=%s): %s" % (stage, opt, str(r["problems"][0])[:300]))
                if stage in (sem.K1, F_SKEW):
                    out["finding"] = stage
                    if stage == F_SKEW:
                        out["why"] = "unbalanced read paths: " + out["why"]
                return out
        for rid, tr in res[True]["traces"].items():
            tr2 = res[False]["traces"].get(rid)
            if tr2 is not None and not shift_equal(tr, tr2):
                witness = {"source": src, "inputs": val, "reader": rid, "opt_trace": tr[:40], "noopt_trace": tr2[:40]}
                return dict(base, verdict="violated", nontrivial=True, witness=witness, evaluations=ticks,
                            why="optimised and unoptimised traces differ beyond a shift at %s" % rid)
            if len(set(tr)) >= 3:
                nontrivial = True
                if sample is None:
                    sample = {"source": src, "inputs": val, "reader": rid, "L_opt": res[True]["L"],
                              "L_noopt": res[False]["L"], "trace_head": tr[:24]}
    return dict(base, verdict="held", nontrivial=nontrivial, evaluations=ticks,
                monitors={"plan": 2, "solver": len(builds[True].build.solves)},
                sample=sample or {"source": src})
