"""C19 - the same source always yields the same logical circuit."""
from __future__ import annotations

import collections
import json
import os
import random
import subprocess
import tempfile

from .. import biggen, canon, driver, gen, lang, pool
from . import C01, C02, C05

PROPERTY = "C19"
LEVEL = "fault_enumeration"
TIMEOUT = 900
BUDGET = {"quick": 600, "thorough": 3600}
RULE = ("Fault enumeration over sources of run-to-run variation: each program (generated expression DAGs, bundles, "
        "multi-merge balanced-loader patterns, and the repository's own example_programs/*.facto; "
        "memories, latches, user entities, implicit signals, unknown-to-draftsman state) is compiled by the real "
        "compiler (a) in fresh interpreter processes with PYTHONHASHSEED in {0, 1, 2, 12345, random} from different "
        "working directories, (b) in one process under injected solver schedules {first(seed) x3, budget(d), fail(k), "
        "default under load} and time budgets, (c) in one process after an unrelated program that registers other "
        "signals and allocates implicit ones, and twice in a row. The canonical logical circuit (multiset of "
        "configured non-pole entities incl. descriptions + partition of their connectors into networks with poles "
        "contracted, compared up to isomorphism by colour refinement) must be identical for all runs of one "
        "(source, options). evaluations = compilations; non-trivial = at least 6 compared runs of a program with "
        ">= 5 entities.")
ASSUMPTIONS = [
    "colour refinement never separates isomorphic circuits (no false alarm) but may identify non-isomorphic ones",
    "entity numbering, tile positions and relay poles are erased before comparison",
]


def balanced_loader(rng):
    """Sources that are members of several wire merges with a transitive relation between the merges
    (the documented balanced-loader pattern): total = {c1.output, ...}; avg = total / -N; d_i = {avg, c_i.output}."""
    n = rng.randint(2, 4)
    prog = []
    for i in range(n):
        prog.append(["place", "c%d" % i, rng.choice(["steel-chest", "wooden-chest", "iron-chest"]), ["n", 2 * i], ["n", 30], None])
    prog.append(["bun", "total", ["B", [["eo", "c%d" % i] for i in range(n)]]])
    prog.append(["bun", "avg", ["bb", "/", ["v", "total"], ["n", -n]]])
    for i in range(n):
        order = [["v", "avg"], ["eo", "c%d" % i]]
        if rng.random() < 0.5:
            order.reverse()
        prog.append(["bun", "d%d" % i, ["B", order]])
        prog.append(["place", "ins%d" % i, "inserter", ["n", 2 * i], ["n", 32], None])
        prog.append(["set", "ins%d" % i, "enable", ["any", rng.choice(["<", ">"]), ["v", "d%d" % i], ["n", 0]]])
    return prog


def example_sources():
    d = os.path.join(driver.REPO, "example_programs")
    out = []
    for f in sorted(os.listdir(d)):
        if f.endswith(".facto"):
            with open(os.path.join(d, f)) as fh:
                out.append((f, fh.read()))
    return out


def gen_cases(tier, seed):
    rng = random.Random(19000013 * seed + 73)
    n = 20 if tier == "quick" else 260
    cases = []
    # the repository's own example programs (real wire-merge / memory / entity patterns): a seeded sample on the
    # quick tier, all of them on the thorough tier
    ex = example_sources()
    pick = ex if tier == "thorough" else rng.sample(ex, k=min(6, len(ex)))
    wanted = [e for e in ex if e[0].startswith("33_")]     # the multi-merge programs are always included
    for name, text in {e[0]: e for e in pick + wanted}.values():
        cases.append({"id": len(cases), "stratum": "example_program", "src": text, "name": name, "prog": [],
                      "other": biggen.mixed_program(random.Random(5), "small", prefix="zz"), "pseed": 1,
                      "optimize": True, "poles": None, "nproc": 4 if tier == "quick" else 6, "seed": rng.randrange(1 << 30)})
    for _ in range(3 if tier == "quick" else 30):
        sub = random.Random(rng.randrange(1 << 60))
        cases.append({"id": len(cases), "stratum": "multi_merge_sources", "prog": balanced_loader(sub),
                      "other": biggen.mixed_program(random.Random(6), "small", prefix="zz"), "pseed": sub.randrange(1 << 30),
                      "optimize": sub.random() < 0.8, "poles": None, "nproc": 4 if tier == "quick" else 6,
                      "seed": sub.randrange(1 << 30)})
    for _ in range(9 if tier == "quick" else 60):
        # one signal name from two producers, the first feeding the second, both with fan-out: the consumer's
        # network selection must not depend on which hops the (layout-dependent) spanning trees happen to contain
        sub = random.Random(rng.randrange(1 << 60))
        types = gen.Types(sub, ("far",))
        variant = sub.random()
        if variant < 0.35:
            prog = C01.s_sel_same_typed(sub, 1)["prog"]
        elif variant < 0.65:
            # the first producer is the typed input itself (a constant combinator): q = a + k; p = a * q, the input
            # fanning out to several such pairs and to projections
            prog = [["input", "x", types.fresh(), sub.randint(1, 9)], ["input", "b", types.fresh(), sub.randint(1, 9)]]
            for j in range(sub.randint(1, 3)):
                prog.append(["sig", "q%d" % j, ["b", "+", ["v", "x"], ["n", j + 1]]])
                prog.append(["sig", "p%d" % j, ["b", sub.choice(["*", "+", "-"]), ["v", "x"], ["v", "q%d" % j]]])
            prog.append(["sig", "dbl", ["b", "+", ["p", ["v", "x"], types.fresh()], ["v", "b"]]])
            for j in range(sub.randint(0, 2)):
                prog.append(["sig", "u%d" % j, ["b", sub.choice(["*", "-"]), ["p", ["v", "x"], types.fresh()], ["n", j + 3]]])
        else:
            # both producers computed: x = src * 2; dbl = x + 1; c = (x > dbl) : dbl  (all on src's type)
            prog = [["input", "src", types.fresh(), sub.randint(1, 9)],
                    ["sig", "x", ["b", "*", ["v", "src"], ["n", sub.randint(2, 4)]]],
                    ["sig", "dbl", ["b", "+", ["v", "x"], ["n", sub.randint(1, 5)]]]]
            for j in range(sub.randint(1, 3)):
                prog.append(["sig", "c%d" % j, ["p", ["s", ["c", sub.choice(lang.CMP_OPS), ["v", "x"], ["v", "dbl"]], ["v", "dbl"]], types.fresh()]])
        for j in range(sub.randint(1, 3)):
            prog.append(["sig", "fx%d" % j, ["p", ["b", "+", ["v", "x"], ["n", j + 1]], types.fresh()]])
            prog.append(["sig", "fd%d" % j, ["p", ["b", "*", ["v", "dbl"], ["n", j + 2]], types.fresh()]])
        cases.append({"id": len(cases), "stratum": "same_name_two_producers_fanout", "prog": prog,
                      "other": biggen.mixed_program(random.Random(7), "small", prefix="zz"), "pseed": sub.randrange(1 << 30),
                      "optimize": True, "poles": None, "nproc": 4 if tier == "quick" else 6, "seed": sub.randrange(1 << 30)})
    for i in range(n):
        sub = random.Random(rng.randrange(1 << 60))
        r = sub.random()
        if r < 0.4:
            prog = biggen.mixed_program(sub, sub.choice(["small", "medium"]), far=sub.random() < 0.3)
            st = "mixed"
        elif r < 0.6:
            prog = C01.s_dag_same(sub, 1)["prog"] + [s for s in C01.s_untyped(sub, 1)["prog"] if s[1] not in ("a", "b", "x", "y", "z")]
            st = "same_typed_dag"
        elif r < 0.8:
            prog = C02.s_chain(sub, 1)["prog"]
            st = "bundles"
        else:
            prog = biggen.fanout_program(sub, sub.randint(3, 25))
            st = "fanout"
        other = biggen.mixed_program(random.Random(sub.randrange(1 << 30)), "small", prefix="zz")
        cases.append({"id": len(cases), "stratum": st, "prog": prog, "other": other, "pseed": sub.randrange(1 << 30),
                      "optimize": sub.random() < 0.75, "poles": sub.choice([None, None, "medium"]),
                      "nproc": 4 if tier == "quick" else 6, "seed": sub.randrange(1 << 30)})
    return cases


def sub_compile(src, args, hashseed, cwd):
    env = pool._env({"PYTHONHASHSEED": str(hashseed)})
    p = subprocess.run([pool.PY, "-m", "fverif.sigproc", json.dumps(args)], input=src, capture_output=True, text=True,
                       env=env, cwd=cwd, timeout=600)
    for line in p.stdout.splitlines():
        if line.startswith("@@S "):
            return json.loads(line[4:])
    return {"ok": False, "error": "no signature line; stderr: " + p.stderr[-300:]}


def run_case(case):
    prog = case["prog"]
    rng = random.Random(case["seed"])
    if case.get("src"):
        src = case["src"]
    else:
        src, _l = lang.to_source(prog, random.Random(case["pseed"]))
    osrc, _l2 = lang.to_source(case["other"], random.Random(1))
    base = {"shape": case.get("name") or lang.shape_of(prog), "stratum": case["stratum"]}
    opts = {"optimize": case["optimize"], "poles": case["poles"]}
    runs = []

    def rec(label, res):
        runs.append((label, res))

    def inproc(label, schedule, **kw):
        b = driver.compile_source(src, optimize=case["optimize"], poles=case["poles"], schedule=schedule, **kw)
        if not b.ok:
            rec(label, {"ok": False, "error": str(b.error)[:200]})
        else:
            s = canon.signature(b.bp)
            rec(label, {"ok": True, "sig": s["sig"], "n_entities": s["n_entities"], "entities": s["entities"],
                        "networks": s["networks"], "bp": b.bp})

    # (b) schedules and budgets in one process
    inproc("first:a", ("first", rng.randrange(1 << 30)))
    inproc("first:b", ("first", rng.randrange(1 << 30)))
    inproc("budget", ("budget", rng.choice([0.05, 0.5]), 7))
    inproc("fail1", ("fail", 1, rng.randrange(1 << 30)))
    inproc("default", ("default",))
    inproc("short_time_limit", ("first", rng.randrange(1 << 30)), time_limit=6)
    # (c) after an unrelated compilation, and twice in a row
    driver.compile_source(osrc, schedule=("first", 1))
    inproc("after_unrelated", ("first", rng.randrange(1 << 30)))
    inproc("again", ("first", rng.randrange(1 << 30)))
    # (a) fresh processes: hash seeds x working directories
    tmp = tempfile.mkdtemp(prefix="fverif_cwd_")
    try:
        seeds = [0, 1, 2, 12345, rng.randrange(1, 4000000000), rng.randrange(1, 4000000000)][: case["nproc"]]
        for i, hs in enumerate(seeds):
            cwd = [pool.HERE, tmp, driver.REPO, "/"][i % 4]
            res = sub_compile(src, dict(opts, schedule=["first", rng.randrange(1 << 30)]), hs, cwd)
            rec("proc:hashseed=%s:cwd=%s" % (hs, cwd), res)
    finally:
        try:
            os.rmdir(tmp)
        except OSError:
            pass
    ok = [(l, r) for l, r in runs if r.get("ok")]
    bad = [(l, r) for l, r in runs if not r.get("ok")]
    base["evaluations"] = len(runs) + 1
    base["monitors"] = {"plan": len(ok)}
    if not ok:
        return dict(base, verdict="vacuous", why="rejected in every run: %s" % bad[0][1].get("error"))
    sigs = collections.Counter(r["sig"] for _l, r in ok)
    if len(sigs) > 1:
        major = sigs.most_common(1)[0][0]
        la, ra = next((l, r) for l, r in ok if r["sig"] == major)
        lb, rb = next((l, r) for l, r in ok if r["sig"] != major)
        detail = {"entities_equal": ra["entities"] == rb["entities"], "networks_equal": ra["networks"] == rb["networks"]}
        bpa = ra.get("bp") or next((r.get("bp") for _l, r in ok if r["sig"] == major and r.get("bp")), None)
        bpb = rb.get("bp") or next((r.get("bp") for _l, r in ok if r["sig"] != major and r.get("bp")), None)
        if bpa and bpb:
            detail["difference"] = canon.explain_difference(bpa, bpb)
        return dict(base, verdict="violated", nontrivial=True,
                    why="logical circuit differs between runs %r and %r" % (la, lb),
                    witness={"source": src[:3000], "options": opts, "runs": {l: r.get("sig") for l, r in runs}, "detail": detail})
    if bad and len(bad) < len(runs):
        # accepted in some runs, rejected in others: the outcome depends on the schedule (legitimate for
        # layout failures) - not a circuit difference; recorded
        base["partially_rejected"] = [(l, r.get("error", "")[:80]) for l, r in bad][:3]
    n_ent = ok[0][1]["n_entities"]
    return dict(base, verdict="held", nontrivial=len(ok) >= 6 and n_ent >= 5,
                sample={"source": src[:800], "options": opts, "runs": [l for l, _r in ok], "signature": ok[0][1]["sig"],
                        "entities": n_ent})
