"""C05 - set/reset latches obey set, reset, hold and the declared priority."""
from __future__ import annotations

import copy
import random

from .. import gen, lang, sem, stateful, wiring
from ..fsim import compare

PROPERTY = "C05"
LEVEL = "exploration"
TIMEOUT = 240
BUDGET = {"quick": 600, "thorough": 3600}
RULE = ("Seeded random latch programs: both argument orders x {set/reset as 0/1 input signals, comparisons on one "
        "shared input (inlinable), comparisons on different inputs, named comparison results} x {disjoint, "
        "touching, overlapping thresholds} x v in {1, other constants incl. negative, a signal}, set/reset signal "
        "types equal to or different from the cell type; histories of 10-40 steps walk the threshold boundaries "
        "(c-1, c, c+1) one input per step, each held until settled plus 4 ticks, entering the both-active region "
        "from the on-state and from the off-state. Oracle: reference automaton (set&!reset -> v, reset&!set -> 0, "
        "neither -> hold, both -> first-named wins) at every reader after every step, plus the reading-independent "
        "priority twin (the program with the two keyword arguments swapped must differ exactly in the both-active "
        "region). evaluations = held steps; non-trivial = history visited set-only, reset-only, hold-on and "
        "both-active states.")
ASSUMPTIONS = [
    "circuit model fverif/fsim.py; mixed AND/OR decider rows are evaluated with AND precedence, and a verdict that flips under the left-to-right reading is reported as inconclusive unless the priority twin decides it",
    "set and reset given as plain signals take values in {0, 1}",
    "a step whose changed input flips set and reset simultaneously through paths of different depth is not generated (both comparisons read the inputs directly)",
]

F_RS_HOLD = "C05-reset-first-latch-not-reset-when-both-active"
F_INLINE_PRIO = "C05-inlined-latch-ignores-priority"


def _mk(prog, stratum, rng, **kw):
    c = {"stratum": stratum, "prog": prog, "hseed": rng.randrange(1 << 30),
         "sseed": rng.randrange(1 << 30), "pseed": rng.randrange(1 << 30)}
    c.update(kw)
    return c


def build(rng, kind, order):
    types = gen.Types(rng)
    prog = []
    edges = {}
    t_mem = types.fresh()
    if rng.random() < 0.08:
        t_mem = "signal-dot"     # a cell on the signal the compiler uses internally for a remapped reset
    if kind == "signals":
        same_type = rng.random() < 0.3
        ts = t_mem if same_type and rng.random() < 0.5 else types.fresh()
        tr = t_mem if same_type and ts != t_mem else types.fresh()
        prog.append(["input", "s", ts, 0])
        prog.append(["input", "r", tr, 0])
        edges = {"s": [0, 1], "r": [0, 1]}
        set_e, reset_e = ["v", "s"], ["v", "r"]
    elif kind == "inline":
        prog.append(["input", "x", types.fresh(), 50])
        lo = rng.randint(5, 40)
        rel = rng.choice(["disjoint", "touching", "overlap"])
        hi = {"disjoint": lo + rng.randint(5, 40), "touching": lo, "overlap": lo - rng.randint(1, 10)}[rel]
        # set when x < lo ; reset when x >= hi   (or mirrored)
        if rng.random() < 0.5:
            set_e = ["c", rng.choice(["<", "<="]), ["v", "x"], ["n", lo]]
            reset_e = ["c", rng.choice([">", ">="]), ["v", "x"], ["n", hi]]
        else:
            set_e = ["c", rng.choice([">", ">="]), ["v", "x"], ["n", hi]]
            reset_e = ["c", rng.choice(["<", "<="]), ["v", "x"], ["n", lo]]
        pts = sorted({lo - 1, lo, lo + 1, hi - 1, hi, hi + 1, min(lo, hi) - 7, max(lo, hi) + 7, (lo + hi) // 2})
        edges = {"x": pts}
    elif kind == "two_inputs":
        prog.append(["input", "a", types.fresh(), 0])
        prog.append(["input", "b", types.fresh(), 0])
        ca, cb = rng.randint(-3, 9), rng.randint(-3, 9)
        set_e = ["c", rng.choice([">", ">=", "<", "=="]), ["v", "a"], ["n", ca]]
        reset_e = ["c", rng.choice([">", ">=", "<", "!="]), ["v", "b"], ["n", cb]]
        edges = {"a": [ca - 1, ca, ca + 1], "b": [cb - 1, cb, cb + 1]}
    else:  # named comparison results
        prog.append(["input", "a", types.fresh(), 0])
        prog.append(["input", "b", types.fresh(), 0])
        ca, cb = rng.randint(-3, 9), rng.randint(-3, 9)
        prog.append(["sig", "sset", ["c", rng.choice([">", "<"]), ["v", "a"], ["n", ca]]])
        prog.append(["sig", "srst", ["c", rng.choice([">", "<"]), ["v", "b"], ["n", cb]]])
        set_e, reset_e = ["v", "sset"], ["v", "srst"]
        edges = {"a": [ca - 1, ca, ca + 1], "b": [cb - 1, cb, cb + 1]}
    vk = rng.choice(["one", "one", "const", "signal", "computed_dup"])
    if vk == "computed_dup":
        # the value is an anonymous expression that also occurs earlier under a name (shared by CSE)
        import copy as _copy
        prog.append(["input", "va", types.fresh(), rng.choice([3, 7, 20])])
        prog.append(["input", "vb", types.fresh(), rng.choice([2, 5, 22])])
        edges["va"] = [3, 7, 20, 1]
        edges["vb"] = [2, 5, 22, 1]
        vexpr = ["p", ["b", "+", ["v", "va"], ["v", "vb"]], t_mem]
        prog.append(["sig", "total", _copy.deepcopy(vexpr)])
        val = vexpr
    elif vk == "one":
        val = ["n", 1]
    elif vk == "const":
        val = ["n", rng.choice([2, 5, 100, -3, -1, 255])]
    else:
        tv = t_mem if rng.random() < 0.5 else types.fresh()
        prog.append(["input", "vv", tv, rng.choice([3, 7, -4, 50])])
        edges["vv"] = [3, 7, -4, 50, 1]
        val = ["v", "vv"] if tv == t_mem else ["p", ["v", "vv"], t_mem]
    if kind == "two_inputs" and rng.random() < 0.5:
        # the latch's inline set / reset expression also occurs earlier in the program (shared by CSE, or inlined
        # into an entity): the latch must still be driven by it
        import copy
        which = rng.choice(["reset", "set", "both"])
        how = rng.choice(["named", "enable", "named"])
        for nm, ex in (("reset", reset_e), ("set", set_e)):
            if which not in (nm, "both"):
                continue
            if how == "named":
                prog.append(["sig", "dup_" + nm, copy.deepcopy(ex)])
            else:
                prog.append(["place", "lamp_" + nm, "small-lamp", ["n", 4 if nm == "set" else 8], ["n", 24], None])
                prog.append(["set", "lamp_" + nm, "enable", copy.deepcopy(ex)])
    prog.append(["mem", "m", t_mem])
    prog.append(["latch", "m", val, set_e, reset_e, order])
    prog.append(["sig", "q0", ["p", ["r", "m"], types.fresh()]])
    if rng.random() < 0.6:
        prog.append(["sig", "q1", ["p", ["b", "+", ["r", "m"], ["n", rng.randint(1, 9)]], types.fresh()]])
    if rng.random() < 0.4:
        prog.append(["place", "lamp", "small-lamp", ["n", 0], ["n", 20], None])
        prog.append(["set", "lamp", "enable", ["c", "!=", ["r", "m"], ["n", 0]]])
    return prog, edges, vk


KINDS = ["signals", "inline", "two_inputs", "named"]


def gen_cases(tier, seed):
    n = 200 if tier == "quick" else 2000
    nhist = 3 if tier == "quick" else 8
    rng = random.Random(5000011 * seed + 3)
    cases = []
    for i in range(n):
        kind = rng.choice(KINDS)
        order = rng.choice(["sr", "rs"])
        sub = random.Random(rng.randrange(1 << 60))
        prog, edges, vk = build(sub, kind, order)
        c = _mk(prog, "%s_%s" % (kind, order), sub, edges=edges, nhist=nhist, kind=kind, order=order, vk=vk,
                nsteps=sub.randint(10, 40 if tier == "thorough" else 24))
        c["id"] = i
        cases.append(c)
    return cases


def make_history(prog, edges, nsteps, rng):
    ins = [s for s in prog if s[0] == "input"]
    cur = {s[1]: s[3] for s in ins}
    steps = [dict(cur)]
    names = [s[1] for s in ins if s[1] != "vv"]
    for _ in range(nsteps):
        if "vv" in cur and rng.random() < 0.12:
            nm = "vv"
        else:
            nm = rng.choice(names)
        steps.append({nm: rng.choice(edges[nm])})
    return steps


def latch_stmt(prog):
    return next(s for s in prog if s[0] == "latch")


def reference(prog, steps, order=None):
    """Per step: expected observations + region label."""
    inputs = {}
    state = {}
    on = False
    out = []
    regions = set()
    for st in steps:
        inputs.update(st)
        it = lang.Interp(prog, dict(inputs), mem=dict(state)).run()
        (mid, kind, v, (s_, r_), stmt) = next(w for w in it.writes if w[1] in ("sr", "rs"))
        o = order or kind
        sa, ra = s_.value > 0, r_.value > 0
        if sa and not ra:
            on = True
            region = "set"
        elif ra and not sa:
            on = False
            region = "reset"
        elif sa and ra:
            on = (o == "sr")
            region = "both"
        else:
            region = "hold_on" if on else "hold_off"
        regions.add(region)
        state = {mid: (v.value if on else 0)}
        it2 = lang.Interp(prog, dict(inputs), mem=dict(state)).run()
        out.append({"exp": sem.expected_of(it2), "it": it2, "region": region, "on": on, "v": v.value})
    return out, regions


def run_history(ex, which, prog, steps, ref, mixed="and_precedence"):
    sim = ex.sim(which, mixed)
    bound = 2 * len(sim._comb) + 10
    skip = set(s[1] for s in prog if s[0] == "input")
    mism = []
    compared = 0
    states = []
    for i, (st, rf) in enumerate(zip(steps, ref)):
        missing = stateful.apply_step(sim, ex, st)
        if missing:
            return None, 0, states, "declared input(s) %s not found by their label" % missing
        t = sim.settle(bound)
        stable = t is not None
        if stable:
            for _ in range(4):
                if sim.step():
                    stable = False
        obs = {"settled": t if stable else None, "out": stateful.read_all(sim, ex), "const": {}}
        states.append(stateful.value_of(obs["out"].get("q0"), None))
        if rf is None:
            continue
        if rf["v"] == 0:
            continue  # a latch writing 0 is indistinguishable from off
        mm, c, _nz = sem.compare_outputs(rf["exp"], obs, skip=skip)
        if rf["it"].enables:
            mm2, c2 = sem.compare_entities(ex, sim, rf["it"])
            mm += mm2
            c += c2
        compared += c
        if mm:
            mism.append({"step": i, "region": rf["region"], "inputs_changed": st, "mismatches": mm[:3]})
            break
    return mism, compared, states, None


def swapped(prog):
    p2 = copy.deepcopy(prog)
    s = latch_stmt(p2)
    s[5] = "rs" if s[5] == "sr" else "sr"
    return p2


def run_case(case):
    prog = case["prog"]
    shape = lang.shape_of(prog)
    base = {"shape": shape, "stratum": case["stratum"]}
    src, _l, b = sem.compile_prog(prog, case)
    if not b.ok:
        return dict(base, verdict="vacuous", why="rejected: " + str(b.error)[:300], src=src)
    ex = sem.Exec(b, prog)
    p2 = swapped(prog)
    src2, _l2, b2 = sem.compile_prog(p2, case)
    ex2 = sem.Exec(b2, p2) if b2.ok else None
    rng = random.Random(case["hseed"])
    total = 0
    compared = 0
    nontrivial = False
    sample = None
    twin_checked = 0
    for h in range(case["nhist"]):
        steps = make_history(prog, case["edges"], case["nsteps"], rng)
        ref, regions = reference(prog, steps)
        total += len(steps)
        mism, c, states, und = run_history(ex, "phys", prog, steps, ref)
        if und:
            return dict(base, verdict="inconclusive", why=und, src=src, evaluations=total)
        compared += c
        if {"set", "reset", "hold_on", "both"} <= regions:
            nontrivial = True
            if sample is None:
                sample = {"source": src, "history": steps[:16], "regions": sorted(regions)}
        if mism:
            return classify(case, base, ex, prog, steps, ref, mism, src, total)
        # priority twin: reading independent
        if ex2 is not None and any(r["region"] == "both" and r["v"] != 0 for r in ref):
            _m2, _c2, states2, _u2 = run_history(ex2, "phys", p2, steps, [None] * len(steps))
            twin_checked += 1
            for i, rf in enumerate(ref):
                if rf["v"] == 0 or states[i] is None or states2[i] is None:
                    continue
                if rf["region"] == "both" and states[i] == states2[i]:
                    witness = {"source": src, "swapped_source": src2, "history": steps, "step": i,
                               "state": states[i], "what": "both argument orders read the same state in the both-active region"}
                    res = dict(base, verdict="violated", nontrivial=True, witness=witness, evaluations=total,
                               why="priority twin: order of set=/reset= has no effect in the both-active region (step %d)" % i)
                    if case["kind"] == "inline":
                        res["finding"] = F_INLINE_PRIO
                    return res
    if compared == 0:
        return dict(base, verdict="inconclusive", why="nothing compared", src=src, evaluations=total)
    return dict(base, verdict="held", nontrivial=nontrivial, evaluations=total,
                monitors={"plan": 1, "twin": twin_checked}, sample=sample or {"source": src})


def classify(case, base, ex, prog, steps, ref, mism, src, total):
    b = ex.build
    try:
        lmm, _c, _s, _u = run_history(ex, "log", prog, steps, ref)
    except Exception as exn:  # noqa: BLE001
        lmm = [{"logical_error": repr(exn)}]
    if lmm:
        stage = "upstream"
    elif wiring.physical_partition(b.bp) == wiring.planned_partition(b.bp, b.cap):
        stage = sem.K1
    else:
        stage = "wiring"
    witness = {"source": src, "history": steps, "mismatches": mism, "stage": stage}
    res = dict(base, verdict="violated", nontrivial=True, witness=witness, evaluations=total,
               why="%s: %s" % (stage, str(mism[0])[:300]))
    if stage == sem.K1:
        res["finding"] = sem.K1
        return res
    if stage == "upstream":
        # reading of mixed rows
        m2, _c, _s, _u = run_history(ex, "phys", prog, steps, ref, mixed="left_to_right")
        flips = not m2
        region = mism[0].get("region")
        if case["order"] == "rs" and case["kind"] != "inline" and region == "both":
            # documented mechanism: S > R with the feedback summed into S keeps an ON latch on
            ref2, _ = reference(prog, steps, order=None)
            alt = alt_reference_rs_hold(prog, steps)
            m3, _c3, _s3, _u3 = run_history(ex, "phys", prog, steps, alt)
            if not m3:
                res["finding"] = F_RS_HOLD
                return res
        if case["kind"] == "inline" and region == "both":
            alt = reference(prog, steps, order="sr")[0]
            m3, _c3, _s3, _u3 = run_history(ex, "phys", prog, steps, alt)
            if not m3:
                res["finding"] = F_INLINE_PRIO
                return res
        if flips:
            return dict(base, verdict="inconclusive", why="verdict depends on the reading of mixed AND/OR rows",
                        witness=witness, evaluations=total)
    return res


def alt_reference_rs_hold(prog, steps):
    """Defect model for F_RS_HOLD: in the both-active region a reset-first latch keeps its previous state."""
    inputs = {}
    state = {}
    on = False
    out = []
    for st in steps:
        inputs.update(st)
        it = lang.Interp(prog, dict(inputs), mem=dict(state)).run()
        (mid, kind, v, (s_, r_), stmt) = next(w for w in it.writes if w[1] in ("sr", "rs"))
        sa, ra = s_.value > 0, r_.value > 0
        if sa and not ra:
            on = True
            region = "set"
        elif ra and not sa:
            on = False
            region = "reset"
        elif sa and ra:
            region = "both"  # keeps previous state
        else:
            region = "hold_on" if on else "hold_off"
        state = {mid: (v.value if on else 0)}
        it2 = lang.Interp(prog, dict(inputs), mem=dict(state)).run()
        out.append({"exp": sem.expected_of(it2), "it": it2, "region": region, "on": on, "v": v.value})
    return out
