"""C06 - entities are driven by exactly the condition the program assigns."""
from __future__ import annotations

import random

from .. import gen, lang, sem
from ..lang import CMP_OPS

PROPERTY = "C06"
LEVEL = "exploration"
TIMEOUT = 240
BUDGET = {"quick": 600, "thorough": 3600}
RULE = ("Seeded random programs placing circuit-controllable entities (lamps, inserters, belts, pumps, power "
        "switches, train stops, assemblers) whose `enable` is an inlinable comparison, a non-inlinable comparison, "
        "arithmetic, a logical chain, a plain signal, any()/all() of a bundle, or a comparison shared with another "
        "consumer; several entities sharing one source; chests/tanks read through `.output` and reused in merges, "
        "selections and bundle operations. For every valuation (inputs and chest contents incl. signals used "
        "elsewhere) the entity found at the user-given tile must be circuit controlled and its condition, "
        "evaluated by the model on the networks actually wired to it, must be true iff the reference value of "
        "the expression is > 0 (and where the condition names the expression's own signal, that signal's value on "
        "the wire must equal the reference value, which exposes double counting). Non-trivial: the enable truth "
        "value changed across valuations.")
ASSUMPTIONS = [
    "circuit model fverif/fsim.py; an entity with circuit_enabled reads red+green at its single connector pair; pumps and power switches have no enable flag and are controlled by a wired condition",
    "chests and tanks emit exactly the model-supplied contents on both colours",
    "constant enables (`x.enable = 1`) are not compared (the property is about expressions of signals)",
]

PROTOS = ["small-lamp", "inserter", "fast-inserter", "transport-belt", "pump", "power-switch", "train-stop",
          "assembling-machine-1"]
CHESTS = ["steel-chest", "iron-chest", "wooden-chest", "storage-tank"]
ITEMS = ["iron-plate", "copper-plate", "coal", "stone", "wood", "iron-ore"]


def _mk(prog, stratum, rng, nval, **kw):
    c = {"stratum": stratum, "prog": prog, "nval": nval, "vseed": rng.randrange(1 << 30),
         "sseed": rng.randrange(1 << 30), "pseed": rng.randrange(1 << 30)}
    c.update(kw)
    return c


class P:
    def __init__(self, rng):
        self.rng = rng
        self.types = gen.Types(rng, pools=("far", "fluid", "ns"))
        self.prog = []
        self.k = 0
        self.edges = {}

    def inp(self, small=True, lo=-5, hi=12):
        nm = "i%d" % len([s for s in self.prog if s[0] == "input"])
        self.prog.append(["input", nm, self.types.fresh(), self.rng.randint(lo, hi)])
        self.edges[nm] = list(range(lo, hi + 1))
        return nm

    def place(self, proto=None):
        nm = "e%d" % self.k
        proto = proto or self.rng.choice(PROTOS)
        self.prog.append(["place", nm, proto, ["n", 4 * self.k], ["n", 20 + 4 * (self.k % 3)], None])
        self.k += 1
        return nm

    def enable(self, ent, e):
        self.prog.append(["set", ent, "enable", e])


def s_inline(rng, nval):
    p = P(rng)
    a = p.inp()
    for _ in range(rng.randint(1, 4)):
        p.enable(p.place(), ["c", rng.choice(CMP_OPS), ["v", a], ["n", rng.randint(-3, 10)]])
    return _mk(p.prog, "inlinable_comparison", rng, nval, edges=p.edges)


def s_noninline(rng, nval):
    p = P(rng)
    a, b = p.inp(), p.inp()
    k = rng.choice(["sigsig", "arith", "chain", "plain", "expr_cmp"])
    e = p.place()
    if k == "sigsig":
        p.enable(e, ["c", rng.choice(CMP_OPS), ["v", a], ["v", b]])
    elif k == "arith":
        p.enable(e, ["b", rng.choice(["+", "-", "*"]), ["v", a], ["v", b]])
    elif k == "chain":
        op = rng.choice(["&&", "||"])
        p.enable(e, [op, ["c", rng.choice(CMP_OPS), ["v", a], ["n", rng.randint(-3, 10)]],
                     ["c", rng.choice(CMP_OPS), ["v", b], ["n", rng.randint(-3, 10)]]])
    elif k == "plain":
        p.enable(e, ["v", a])
    else:
        p.enable(e, ["c", rng.choice(CMP_OPS), ["b", "+", ["v", a], ["v", b]], ["n", rng.randint(-3, 15)]])
    return _mk(p.prog, "enable_" + k, rng, nval, edges=p.edges)


def s_condvalue(rng, nval):
    """`enable = (x CMP c) : k` / `: y` - near-inlinable forms: the assigned VALUE decides (k <= 0 never enables)."""
    p = P(rng)
    a, b = p.inp(), p.inp()
    for _ in range(rng.randint(1, 3)):
        cmp_ = ["c", rng.choice(CMP_OPS), ["v", a], ["n", rng.randint(-3, 10)]]
        form = rng.choice(["k", "k", "k", "sig", "neg", "not", "named", "mulk"])
        k = rng.choice([-2, -1, 0, 1, 2, 7])
        if form == "k":
            e = ["s", cmp_, ["n", k]]
        elif form == "sig":
            e = ["s", cmp_, ["v", b]]
        elif form == "neg":
            e = ["neg", cmp_]
        elif form == "not":
            e = ["!", cmp_]
        elif form == "mulk":
            e = ["b", "*", cmp_, ["n", k]]
        else:
            nm = "g%d" % len(p.prog)
            p.prog.append(["sig", nm, ["s", cmp_, ["n", k]]])
            e = ["v", nm]
        p.enable(p.place(), e)
    return _mk(p.prog, "enable_conditional_value", rng, nval, edges=p.edges)


def s_shared_cmp(rng, nval):
    p = P(rng)
    a = p.inp()
    p.prog.append(["sig", "f", ["c", rng.choice(CMP_OPS), ["v", a], ["n", rng.randint(-3, 10)]]])
    p.enable(p.place(), ["v", "f"])
    if rng.random() < 0.7:
        p.prog.append(["sig", "g", ["p", ["b", "+", ["v", "f"], ["n", 1]], p.types.fresh()]])
    if rng.random() < 0.5:
        p.enable(p.place(), ["v", "f"])
    return _mk(p.prog, "comparison_shared_with_other_consumer", rng, nval, edges=p.edges)


def s_fanout(rng, nval):
    p = P(rng)
    a = p.inp()
    p.prog.append(["sig", "t", ["p", ["b", "*", ["v", a], ["n", rng.randint(2, 5)]], p.types.fresh()]])
    for _ in range(rng.randint(3, 8)):
        p.enable(p.place("small-lamp"), ["c", rng.choice(CMP_OPS), ["v", "t"], ["n", rng.randint(-10, 40)]])
    return _mk(p.prog, "fanout_one_source", rng, nval, edges=p.edges)


def s_bundle_cond(rng, nval):
    p = P(rng)
    ms = [p.inp() for _ in range(rng.randint(2, 4))]
    p.prog.append(["bun", "b", ["B", [["v", m] for m in ms]]])
    for _ in range(rng.randint(1, 3)):
        k = rng.choice(["any", "all"])
        p.enable(p.place(), [k, rng.choice(CMP_OPS), ["v", "b"], ["n", rng.randint(-3, 10)]])
    return _mk(p.prog, "any_all_inlined", rng, nval, edges=p.edges)


def s_func_configured(rng, nval):
    """Entities configured inside a function whose int parameter has the name of a global int of another value."""
    p = P(rng)
    ms = [p.inp() for _ in range(rng.randint(2, 3))]
    p.prog.append(["bun", "b", ["B", [["v", m] for m in ms]]])
    g = rng.randint(-3, 10)
    p.prog.append(["int", "lim", ["n", g]])
    kind = rng.choice(["any", "all", "sig", "sigl"])
    op = rng.choice(CMP_OPS)
    if kind in ("any", "all"):
        cond = [kind, op, ["v", "b"], ["v", "lim"]]
        params = [["Entity", "e"], ["int", "lim"]]
    elif kind == "sig":
        cond = ["c", op, ["v", "v"], ["v", "lim"]]
        params = [["Entity", "e"], ["Signal", "v"], ["int", "lim"]]
    else:
        cond = ["c", op, ["v", "lim"], ["v", "v"]]
        params = [["Entity", "e"], ["Signal", "v"], ["int", "lim"]]
    p.prog.append(["func", "cfg", params, [["set", "e", "enable", cond]], None])
    if rng.random() < 0.6:
        top = p.place()
        tc = [kind, op, ["v", "b"], ["v", "lim"]] if kind in ("any", "all") else \
            (["c", op, ["v", ms[0]], ["v", "lim"]] if kind == "sig" else ["c", op, ["v", "lim"], ["v", ms[0]]])
        p.enable(top, tc)
    for _ in range(rng.randint(1, 3)):
        ent = p.place()
        k = rng.choice([x for x in range(-3, 11) if x != g])
        args = [["v", ent]] + ([["v", rng.choice(ms)]] if len(params) == 3 else []) + [["n", k]]
        p.prog.append(["expr", ["call", "cfg", args]])
    return _mk(p.prog, "function_configured_param_named_like_global", rng, nval, edges=p.edges)


def s_chest(rng, nval):
    p = P(rng)
    a = p.inp()
    ch = p.place(rng.choice(CHESTS))
    p.prog.append(["bun", "cc", ["eo", ch]])
    item = rng.choice(ITEMS)
    k = rng.choice(["sel_cmp", "all", "sel_plus", "bundle_op", "two_uses"])
    if k == "sel_cmp":
        p.enable(p.place(), ["c", rng.choice(CMP_OPS), ["bs", ["v", "cc"], item], ["n", rng.randint(0, 20)]])
    elif k == "all":
        p.enable(p.place(), [rng.choice(["any", "all"]), rng.choice(CMP_OPS), ["v", "cc"], ["n", rng.randint(0, 20)]])
    elif k == "sel_plus":
        p.prog.append(["sig", "t", ["p", ["b", "+", ["bs", ["v", "cc"], item], ["v", a]], p.types.fresh()]])
        p.enable(p.place(), ["c", ">", ["v", "t"], ["n", rng.randint(0, 20)]])
    elif k == "bundle_op":
        p.prog.append(["bun", "d", ["bb", rng.choice(["*", "+", "-"]), ["v", "cc"], ["n", rng.randint(2, 5)]]])
        p.enable(p.place(), ["any", ">", ["v", "d"], ["n", rng.randint(0, 40)]])
    else:
        p.prog.append(["sig", "t", ["p", ["b", "*", ["bs", ["v", "cc"], item], ["n", 2]], p.types.fresh()]])
        p.prog.append(["sig", "u", ["p", ["b", "+", ["bs", ["v", "cc"], item], ["n", 1]], p.types.fresh()]])
        p.enable(p.place(), ["c", ">", ["v", "t"], ["v", "u"]])
    return _mk(p.prog, "chest_output_" + k, rng, nval, edges=p.edges, chests=True)


def s_balanced_loader(rng, nval):
    """The documented balanced-loader pattern: chests that are members of two transitively related wire merges."""
    from . import C19

    prog = C19.balanced_loader(rng)
    pad = rng.choice([0, 0, 3, 8])     # earlier merges shift the merge ids (one digit / two digits)
    p = P(rng)
    for j in range(pad):
        a, b = p.inp(), p.inp()
        p.prog.append(["bun", "pad%d" % j, ["B", [["v", a], ["v", b]]]])
        p.enable(p.place("small-lamp"), ["any", ">", ["v", "pad%d" % j], ["n", rng.randint(0, 9)]])
    return _mk(p.prog + prog, "balanced_loader", rng, nval, edges=p.edges, chests=True)


READABLE = ["transport-belt", "inserter", "fast-inserter"]


def s_controlled_and_read(rng, nval):
    """An entity that is enabled by a condition AND whose contents are read: its single connector is both the
    sink of the condition's operand and the source of `.output`."""
    p = P(rng)
    item = rng.choice(ITEMS)
    # the operand never has the type of something the entity holds: a single-connector entity always reads its own
    # output, which no wiring can prevent
    s = "i0"
    p.prog.append(["input", s, p.types.fresh(), rng.randint(-5, 12)])
    p.edges[s] = list(range(-5, 13))
    ent = p.place(rng.choice(READABLE))
    p.enable(ent, ["c", rng.choice(CMP_OPS), ["v", s], ["n", rng.randint(-3, 10)]])
    p.prog.append(["bun", "r", ["eo", ent]])
    k = rng.choice(["sel", "any", "bundle_op"])
    if k == "sel":
        p.prog.append(["sig", "t", ["p", ["b", "+", ["bs", ["v", "r"], item], ["n", 1]], p.types.fresh()]])
        p.enable(p.place("small-lamp"), ["c", ">", ["v", "t"], ["n", rng.randint(0, 20)]])
    elif k == "any":
        p.enable(p.place("small-lamp"), [rng.choice(["any", "all"]), rng.choice(CMP_OPS), ["v", "r"], ["n", rng.randint(0, 20)]])
    else:
        p.prog.append(["bun", "d", ["bb", rng.choice(["*", "+"]), ["v", "r"], ["n", rng.randint(2, 5)]]])
        p.enable(p.place("small-lamp"), ["any", ">", ["v", "d"], ["n", rng.randint(0, 40)]])
    if rng.random() < 0.7:
        p.prog.append(["sig", "u", ["p", ["b", "*", ["v", s], ["n", 2]], p.types.fresh()]])
        p.enable(p.place("small-lamp"), ["c", rng.choice(CMP_OPS), ["v", "u"], ["n", rng.randint(-3, 10)]])
    return _mk(p.prog, "entity_controlled_and_read", rng, nval, edges=p.edges, chests=True)


STRATA = [(s_inline, 4), (s_noninline, 5), (s_condvalue, 3), (s_shared_cmp, 2), (s_fanout, 2), (s_bundle_cond, 2), (s_func_configured, 2), (s_chest, 4), (s_balanced_loader, 2), (s_controlled_and_read, 2)]


def gen_cases(tier, seed):
    n = 260 if tier == "quick" else 3000
    nval = 16 if tier == "quick" else 40
    rng = random.Random(6000029 * seed + 13)
    weights = [w for _f, w in STRATA]
    cases = []
    for i in range(n):
        f = rng.choices([f for f, _w in STRATA], weights)[0]
        sub = random.Random(rng.randrange(1 << 60))
        c = f(sub, nval)
        c["id"] = i
        cases.append(c)
    return cases


def chests_fn(case, vals, rng):
    if not case.get("chests"):
        return None
    import json

    text = json.dumps(case["prog"])
    # belts and inserters emit their contents only when the program reads them (`.output`)
    places = [s for s in case["prog"] if s[0] == "place" and
              (s[2] in CHESTS or (s[2] in READABLE and '["eo", "%s"]' % s[1] in text))]
    out = []
    for _ in vals:
        d = {}
        for s in places:
            n = rng.randint(0, 3)
            contents = {}
            pool = ITEMS if s[2] != "storage-tank" else ["water", "crude-oil", "steam"]
            for it in rng.sample(pool, k=min(n, len(pool))):
                contents[it] = rng.choice([1, 2, 5, 10, 50, 100, 4000])
            d[(s[2], s[3][1], s[4][1])] = contents
        out.append(d)
    return out


def run_case(case):
    return sem.run_stateless_case(case, chests_fn=chests_fn)
