"""C17 - imports are textual inclusion and the standard library meets its contracts."""
from __future__ import annotations

import os
import random
import shutil
import tempfile

from .. import driver, gen, lang, monitors, sem, twins
from ..fsim import INT_MAX, INT_MIN, w32

PROPERTY = "C17"
LEVEL = "exploration"
TIMEOUT = 300
BUDGET = {"quick": 600, "thorough": 3600}
REQUIRED_MONITORS = ["import_resolutions"]
RULE = ("(a) Generated import graphs over library files written to a temporary tree (chains, diamonds, cycles, "
        "self-import, cycle through the main file, files in the importer's directory and in sub-directories, "
        "the bundled lib) are compiled by the real compiler from three working directories (one holding decoy "
        "files with the same names) next to the twin with every import pasted once; both blueprints are executed "
        "and must agree, and the import build must match the reference semantics. (b) A harness monitor on "
        "preprocess_imports / resolve_import_path records every resolution, the number of times each file's text "
        "is inlined (at most once) and the resolved path per working directory (must not change). (c) Every "
        "function of lib/math.facto is compiled (once per int-parameter tuple) and executed for boundary-biased "
        "int32 argument tuples; the result must equal the documented mathematical value wherever the documented "
        "formula does not overflow. evaluations = executed valuations; non-trivial = an imported function's "
        "result was compared non-zero.")
ASSUMPTIONS = [
    "termination is checked as a bounded number of expansion calls (a RecursionError or rejection of the import build while the pasted twin is accepted is a violation); no wall-clock verdict",
    "library contracts: abs, sign, min, max, clamp (low <= high), lerp = a + ((b-a)*t)/100 with truncating division, between, get/set/clear/toggle bit for positions 0..30, div_floor = floor(a/b), mod_positive = a mod |b| in [0,|b|), b != 0; argument tuples whose documented formula overflows int32 are skipped",
]

REPO = driver.REPO
F_SHADOW = "C17-cwd-file-shadows-bundled-library"


def _mk(stratum, rng, **kw):
    c = {"stratum": stratum, "vseed": rng.randrange(1 << 30), "sseed": rng.randrange(1 << 30),
         "pseed": rng.randrange(1 << 30)}
    c.update(kw)
    return c


# ------------------------------------------------------------------ (a) import graphs

def make_graph(rng, shape):
    """files: path -> statements; main statements."""
    types = gen.Types(rng)
    nfiles = {"chain": rng.randint(2, 4), "diamond": 4, "cycle": rng.randint(2, 3), "self": 1,
              "twice": 2, "subdir": 2, "main_cycle": 2, "dotdot_diamond": 2, "dotdot_cycle": 2}[shape]
    names = ["f%d.facto" % i for i in range(nfiles)]
    if shape == "subdir":
        names[1] = "sub/f1.facto"
    if shape == "dotdot_diamond":
        names = ["common/util.facto", "modules/scaler.facto"]
    if shape == "dotdot_cycle":
        names = ["left/x.facto", "right/y.facto"]
    files = {n: [] for n in names}
    funcs = []
    for i, n in enumerate(names):
        fn = "fn%d" % i
        t = types.fresh()
        k = rng.randint(1, 9)
        inner = ["v", "s"]
        files[n].append(["func", fn, [["Signal", "s"], ["int", "q"]],
                         [["sig", "loc", ["p", ["b", rng.choice(["+", "*", "-"]), inner, ["n", k]], t]]],
                         ["b", "+", ["v", "loc"], ["v", "q"]]])
        funcs.append(fn)

    def imp(src, dst):
        files[src].insert(0, ["import", dst])

    main_imports = []
    if shape == "chain":
        for i in range(nfiles - 1):
            imp(names[i], names[i + 1])
        main_imports = [names[0]]
    elif shape == "diamond":
        imp(names[0], names[2])
        imp(names[1], names[2])
        imp(names[2], names[3])
        main_imports = [names[0], names[1]]
    elif shape == "cycle":
        for i in range(nfiles):
            imp(names[i], names[(i + 1) % nfiles])
        main_imports = [names[0]]
    elif shape == "self":
        imp(names[0], names[0])
        main_imports = [names[0]]
    elif shape == "twice":
        main_imports = [names[0], names[1], names[0]]
    elif shape == "subdir":
        # file in a sub-directory imports a file next to itself by bare name
        files["sub/helper.facto"] = [["func", "fnh", [["Signal", "s"], ["int", "q"]], [], ["b", "*", ["v", "s"], ["v", "q"]]]]
        funcs.append("fnh")
        files["sub/f1.facto"].insert(0, ["import", "helper.facto"])
        main_imports = [names[0], names[1]]
    elif shape == "main_cycle":
        imp(names[0], names[1])
        imp(names[1], "main.facto")
        main_imports = [names[0]]
    elif shape == "dotdot_diamond":
        # one file reached under two spellings: directly and through ../ from a sibling directory
        imp(names[1], "../common/util.facto")
        main_imports = [names[0], names[1]] if rng.random() < 0.5 else [names[1], names[0]]
    elif shape == "dotdot_cycle":
        imp(names[0], "../right/y.facto")
        imp(names[1], "../left/x.facto")
        main_imports = [names[0]]
    main = [["import", p] for p in main_imports]
    main.append(["input", "a", types.fresh(), gen.rand_value(rng, True)])
    for j, fn in enumerate(funcs):
        main.append(["sig", "r%d" % j, ["p", ["call", fn, [["v", "a"], ["n", rng.randint(1, 9)]]], types.fresh()]])
    return files, main


def interp_files(files):
    """Interp resolves imports by the literal path; sub-directory imports by bare name are
    registered under both spellings."""
    out = dict(files)
    for p, st in files.items():
        if "/" in p:
            out.setdefault(p.split("/")[-1], st)
            out.setdefault("../" + p, st)      # the spelling used from a sibling directory
    return out


def run_graph(case):
    monitors.IMPORT_LOG.clear()
    rng = random.Random(case["vseed"])
    files, main = case["files"], case["main"]
    shape = lang.shape_of(main) + case["shape"]
    base = {"shape": shape, "stratum": case["stratum"]}
    root = tempfile.mkdtemp(prefix="fverif_imp_")
    old_cwd = os.getcwd()
    try:
        proj = os.path.join(root, "proj")
        os.makedirs(os.path.join(proj, "sub"), exist_ok=True)
        decoy = os.path.join(root, "decoy")
        os.makedirs(os.path.join(decoy, "sub"), exist_ok=True)
        other = os.path.join(root, "elsewhere")
        os.makedirs(other)
        for p, st in files.items():
            os.makedirs(os.path.dirname(os.path.join(proj, p)), exist_ok=True)
            os.makedirs(os.path.dirname(os.path.join(decoy, p)), exist_ok=True)
            with open(os.path.join(proj, p), "w") as f:
                f.write(lang.to_source(st)[0])
            # decoys: same names, a body that would change every result
            with open(os.path.join(decoy, p), "w") as f:
                f.write("func decoy_%s(Signal s) { return s * 0; }\n" % p.replace("/", "_").replace(".", "_"))
        main_path = os.path.join(proj, "main.facto")
        main_src = lang.to_source(main)[0]
        with open(main_path, "w") as f:
            f.write(main_src)
        ifiles = interp_files(files)
        ifiles["main.facto"] = []
        twin = twins.paste_imports(main, ifiles)
        results = []
        resolved = {}
        for cwd in (proj, decoy, other):
            os.chdir(cwd)
            monitors.IMPORT_LOG.clear()
            r = sem.run_twin_case(dict(case, nval=case.get("nval", 4), stratum=case["stratum"]), main,
                                  {"source_name": main_path}, twin, {}, label_a="imports (cwd=%s)" % os.path.basename(cwd),
                                  label_b="pasted", files=ifiles)
            log = list(monitors.IMPORT_LOG)
            res_now = {}
            for e in log:
                if "resolve" in e:
                    res_now.setdefault((e["resolve"], e["base"]), set()).add(os.path.relpath(e["to"], root))
            for k, v in res_now.items():
                resolved.setdefault(k, {})[os.path.basename(cwd)] = sorted(v)
            sus = [e for e in log if e.get("suspect")]
            nexp = len([e for e in log if e.get("expand")])
            results.append((cwd, r, sus, nexp, len([e for e in log if "resolve" in e])))
        os.chdir(old_cwd)
        n_res = sum(x[4] for x in results)
        mon = {"import_resolutions": n_res, "expansions": sum(x[3] for x in results)}
        for cwd, r, sus, nexp, _n in results:
            if r["verdict"] in ("violated",):
                r = dict(r, monitors=mon)
                r["witness"]["cwd"] = os.path.basename(cwd)
                r["witness"]["files"] = {p: lang.to_source(st)[0] for p, st in files.items()}
                r.update(base)
                return r
            if sus:
                return dict(base, verdict="violated", nontrivial=True, monitors=mon,
                            why="import monitor: %s" % sus[0]["problems"],
                            witness={"cwd": os.path.basename(cwd), "main": main_src, "monitor": sus[:2]})
            if nexp > 4 * (len(files) + 2):
                return dict(base, verdict="violated", nontrivial=True, monitors=mon,
                            why="import expansion took %d calls for %d files" % (nexp, len(files)),
                            witness={"main": main_src})
        for key, per_cwd in resolved.items():
            vals = {tuple(v) for v in per_cwd.values()}
            if len(vals) > 1:
                return dict(base, verdict="violated", nontrivial=True, monitors=mon,
                            why="import %r resolves differently per working directory: %s" % (key[0], per_cwd),
                            witness={"main": main_src, "resolution": {str(k): v for k, v in resolved.items()}})
        worst = [r for _c, r, _s, _n, _m in results if r["verdict"] != "held"]
        if worst:
            return dict(worst[0], monitors=mon, **base)
        r0 = results[0][1]
        return dict(base, verdict="held", nontrivial=r0.get("nontrivial", False), evaluations=3 * 2 * case.get("nval", 4),
                    monitors=mon, sample={"main": main_src, "files": {p: lang.to_source(st)[0][:200] for p, st in files.items()},
                                          "resolved": {k[0]: v for k, v in list(resolved.items())[:4]}})
    finally:
        os.chdir(old_cwd)
        shutil.rmtree(root, ignore_errors=True)


# ------------------------------------------------------------------ (c) math library

def fdiv(a, b):
    return a // b


LIB = {
    # name: (param kinds, expected(args) or None when out of contract)
    "abs": (["S"], lambda x: None if x == INT_MIN else abs(x)),
    "sign": (["S"], lambda x: (x > 0) - (x < 0)),
    "min": (["S", "S"], lambda a, b: min(a, b)),
    "max": (["S", "S"], lambda a, b: max(a, b)),
    "clamp": (["S", "i", "i"], lambda x, lo, hi: None if lo > hi else max(lo, min(hi, x))),
    "lerp": (["i", "i", "S"], lambda a, b, t: _lerp(a, b, t)),
    "between": (["S", "i", "i"], lambda x, lo, hi: 1 if lo <= x <= hi else 0),
    "get_bit": (["S", "p"], lambda v, p: (v >> p) & 1),
    "set_bit": (["S", "p"], lambda v, p: w32(v | (1 << p))),
    "clear_bit": (["S", "p"], lambda v, p: w32(v & ~(1 << p))),
    "toggle_bit": (["S", "p"], lambda v, p: w32(v ^ (1 << p))),
    "div_floor": (["S", "S"], lambda a, b: None if b == 0 or (a == INT_MIN and b == -1) else a // b),
    "mod_positive": (["S", "S"], lambda a, b: None if b == 0 or b == INT_MIN else a % abs(b)),
}


def _in32(x):
    return INT_MIN <= x <= INT_MAX


def _lerp(a, b, t):
    if not _in32(b - a) or not _in32((b - a) * t):
        return None
    p = (b - a) * t
    q = abs(p) // 100
    q = q if p >= 0 else -q
    r = a + q
    return r if _in32(r) else None


def run_lib(case):
    fn = case["fn"]
    kinds, expect = LIB[fn]
    rng = random.Random(case["vseed"])
    ints = case["ints"]
    args_src = []
    inputs = []
    ii = 0
    types = ["signal-dot", "signal-check", "signal-info"]
    pnames = None
    if case.get("param_named_inputs"):
        # the caller's signals carry the names of the library function's own parameters, rotated by one, so that a
        # later argument mentions the name of an earlier parameter (arguments are evaluated in the caller's scope)
        import re as _re

        with open(os.path.join(driver.REPO, "lib", "math.facto")) as _f:
            m_ = _re.search(r"func\s+%s\s*\(([^)]*)\)" % fn, _f.read())
        if m_:
            sig_params = [p_.split()[-1] for p_ in m_.group(1).split(",") if p_.strip().startswith("Signal")]
            if len(sig_params) >= 2:
                pnames = sig_params[1:] + sig_params[:1]
    for k in kinds:
        if k == "S":
            nm = pnames[len(inputs)] if pnames else "a%d" % len(inputs)
            inputs.append(nm)
            args_src.append(nm)
        else:
            args_src.append("(%d)" % ints[ii] if ints[ii] < 0 else str(ints[ii]))
            ii += 1
    src = 'import "%s";\n' % case.get("import_as", "math.facto")
    if case.get("user_ints"):
        # the user's own compile-time ints, named like the library's parameters and locals
        for nm_, v_ in case["user_ints"]:
            src += "int %s = %d;\n" % (nm_, v_)
    for i, nm in enumerate(inputs):
        src += 'Signal %s = ("%s", 1);\n' % (nm, types[i])
    src += 'Signal res = %s(%s) | "signal-heart";\n' % (fn, ", ".join(args_src))
    root = None
    old_cwd = os.getcwd()
    if case.get("decoy_cwd"):
        # a working directory that holds files named like the bundled library
        root = tempfile.mkdtemp(prefix="fverif_lib_")
        os.makedirs(os.path.join(root, "lib"))
        for p_ in ("math.facto", "lib/math.facto"):
            with open(os.path.join(root, p_), "w") as f:
                f.write("func %s(%s) { return p0 * 0 + 12345; }\n" % (fn, ", ".join(
                    ("Signal p%d" % i) if k == "S" else ("int p%d" % i) for i, k in enumerate(kinds))))
        os.chdir(root)
    try:
        b = driver.compile_source(src, schedule=("first", case["sseed"]))
    finally:
        os.chdir(old_cwd)
        if root:
            shutil.rmtree(root, ignore_errors=True)
    base = {"shape": "lib:%s:%s" % (fn, ",".join(map(str, ints))), "stratum": case["stratum"]}
    if not b.ok:
        return dict(base, verdict="violated", nontrivial=True, why="library program rejected: %s" % str(b.error)[:300],
                    witness={"source": src})
    ex = sem.Exec(b, None)
    ex.types = {nm: types[i] for i, nm in enumerate(inputs)}
    sim = ex.sim("phys")
    n = case["ntuples"]
    compared = 0
    nonzero = 0
    for _ in range(n):
        vals = {nm: gen.rand_value(rng, small=rng.random() < 0.4) for nm in inputs}
        if fn in ("div_floor", "mod_positive") and rng.random() < 0.6:
            vals[inputs[1]] = rng.choice([1, -1, 2, -2, 3, -3, 7, -7, 10, 100, -100, 65536])
        full = []
        ii = 0
        si = 0
        for k in kinds:
            if k == "S":
                full.append(vals[inputs[si]])
                si += 1
            else:
                full.append(ints[ii])
                ii += 1
        want = expect(*full)
        if want is None:
            continue
        for n_ in sim._comb:
            sim.out[n_] = {}
        obs = ex.observe(sim, vals)
        if obs["missing_inputs"]:
            return dict(base, verdict="inconclusive", why="input not found by label")
        got = obs["out"].get("res", {}).get("signals", {}).get("signal-heart", 0)
        compared += 1
        if want != 0:
            nonzero += 1
        if obs["settled"] is None or got != want:
            def replay(s2):
                for n_ in s2._comb:
                    s2.out[n_] = {}
                o2 = ex.observe(s2, vals)
                g2 = o2["out"].get("res", {}).get("signals", {}).get("signal-heart", 0)
                return [] if (o2["settled"] is not None and g2 == want) else [{"got": g2}]

            stage, detail = sem.stage_of_failure(ex, replay)
            res = dict(base, verdict="violated", nontrivial=True, evaluations=compared,
                       why="%s: %s%s = %s, documented %s" % (stage, fn, tuple(full), got, want),
                       witness={"source": src, "inputs": vals, "args": full, "expected": want, "got": got, "stage": stage,
                                "decoy_cwd": bool(case.get("decoy_cwd"))})
            if stage == sem.K1:
                res["finding"] = sem.K1
            elif case.get("decoy_cwd") and got == 12345:
                res["finding"] = F_SHADOW
                res["why"] = "a file in the working directory shadows the bundled library: " + res["why"]
            return res
    if compared == 0:
        return dict(base, verdict="vacuous", why="no argument tuple inside the documented domain")
    return dict(base, verdict="held", nontrivial=nonzero > 0, evaluations=compared,
                monitors={"import_resolutions": 1, "lib_tuples": compared},
                sample={"source": src, "tuples": compared})


def gen_cases(tier, seed):
    rng = random.Random(17000059 * seed + 47)
    cases = []
    ngraph = 45 if tier == "quick" else 630
    shapes = ["chain", "diamond", "cycle", "self", "twice", "subdir", "main_cycle", "dotdot_diamond", "dotdot_cycle"]
    for i in range(ngraph):
        sub = random.Random(rng.randrange(1 << 60))
        shape = shapes[i % len(shapes)]
        files, main = make_graph(sub, shape)
        cases.append(_mk("import_graph_" + shape, sub, kind="graph", files=files, main=main, shape=shape, nval=4))
    ntup = 250 if tier == "quick" else 5000
    reps = 4 if tier == "quick" else 12
    for fn, (kinds, _e) in LIB.items():
        for r in range(reps):
            sub = random.Random(rng.randrange(1 << 60))
            ints = []
            for k in kinds:
                if k == "i":
                    ints.append(sub.choice([0, 1, -1, 5, 10, -10, 100, -100, 1000, 255, 46340]))
                elif k == "p":
                    ints.append(sub.randint(0, 30))
            if fn in ("clamp", "between") and ints[0] > ints[1] and sub.random() < 0.8:
                ints = [ints[1], ints[0]]
            user_ints = None
            if r % 2 == 1:
                names_ = sub.sample(["x", "a", "b", "t", "value", "n", "result", "low", "high", "pos", "k", "s"], k=5)
                user_ints = [(nm_, sub.randint(2, 12)) for nm_ in names_]
            pni = (r % 4 == 2) and kinds.count("S") >= 2
            cases.append(_mk("lib_" + fn + ("_user_ints" if user_ints else "") + ("_param_named_inputs" if pni else ""), sub,
                             kind="lib", fn=fn, ints=ints, ntuples=ntup, user_ints=user_ints, param_named_inputs=pni,
                             import_as=sub.choice(["math.facto", "lib/math.facto", "math"])))
    for fn in ["abs", "clamp", "div_floor"]:
        sub = random.Random(rng.randrange(1 << 60))
        kinds = LIB[fn][0]
        ints = [sub.choice([0, 5, 10]) for k in kinds if k in ("i", "p")]
        ints.sort()
        cases.append(_mk("lib_decoy_in_cwd", sub, kind="lib", fn=fn, ints=ints, ntuples=20, decoy_cwd=True,
                         import_as=sub.choice(["math.facto", "lib/math.facto"])))
    for i, c in enumerate(cases):
        c["id"] = i
    return cases


def worker_init():
    monitors.attach_import_monitor()


def run_case(case):
    if case["kind"] == "graph":
        return run_graph(case)
    return run_lib(case)
