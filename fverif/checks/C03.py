"""C03 - a gated memory cell latches the written value and holds it."""
from __future__ import annotations

import itertools
import random

from .. import gen, lang, sem, stateful
from ..lang import CMP_OPS

PROPERTY = "C03"
LEVEL = "exploration"
TIMEOUT = 240
BUDGET = {"quick": 600, "thorough": 3600}
RULE = ("Seeded random programs with 1-3 `write(v, when=c)` cells (data: stateless expression of 1-3 inputs; "
        "enable: comparison / plain signal / depth-1 arithmetic; 1-4 readers of different kinds) compiled by the "
        "real compiler; the emitted blueprint is driven in the circuit model through input histories of 8-40 "
        "steps (one input changed per step, held until settled plus 4 ticks). After every step each reader is "
        "compared with a reference state machine (0 before the first enabled write; v while c>0; hold while "
        "c=0). evaluations = held steps executed; non-trivial = a history in which the cell held a non-zero "
        "value across at least one data change while disabled; distinct = program shapes.")
ASSUMPTIONS = [
    "circuit model fverif/fsim.py (one tick per combinator); a step is held until no combinator output changes, bounded by 2*#combinators+10 ticks, then 4 more ticks must be stable",
    "c < 0 is neither positive nor zero: the property does not fix the cell then, so comparisons are suspended until the next enabled write",
    "when the changed input feeds both data and enable and the enable falls in that step, both the old and the new data are accepted as 'last value written' (equal-depth race)",
    "enable expressions are generated with equal path depth from every input (no combinational glitch on the enable)",
]


def _mk(prog, stratum, rng, **kw):
    c = {"stratum": stratum, "prog": prog, "hseed": rng.randrange(1 << 30),
         "sseed": rng.randrange(1 << 30), "pseed": rng.randrange(1 << 30)}
    c.update(kw)
    return c


def build(rng, stratum):
    types = gen.Types(rng)
    prog = []
    ncell = 1 if stratum not in ("multi_cell", "multi_cell_same_enable") else rng.randint(2, 3)
    shared = None   # multi_cell_same_enable: every cell is gated by the textually same condition
    edges = {}
    k = 0
    for ci in range(ncell):
        t_mem = types.fresh()
        d = "d%d" % ci
        e = "e%d" % ci
        prog.append(["input", d, types.fresh(), gen.rand_value(rng, True)])
        edges[d] = [0, 1, -1, 5, -7, 100, 2147483647, -2147483648]
        thr = rng.randint(-2, 6)
        if stratum == "multi_cell_same_enable" and shared is not None:
            thr = shared[1]
        if stratum == "shared_input":
            en_in = d
            edges[d] = list(range(thr - 2, thr + 3)) + [50, -50]
        elif stratum == "multi_cell_same_enable" and shared is not None:
            en_in = shared[0]
        else:
            prog.append(["input", e, types.fresh(), rng.randint(0, 1)])
            en_in = e
            edges[e] = list(range(thr - 2, thr + 3))
        # data expression
        form = rng.choice(["plain", "arith", "two"])
        if form == "plain":
            data = ["v", d]
        elif form == "arith":
            data = ["b", rng.choice(["+", "-", "*"]), ["v", d], ["n", rng.randint(1, 9)]]
        else:
            d2 = "x%d" % ci
            prog.append(["input", d2, types.fresh(), gen.rand_value(rng, True)])
            data = ["b", rng.choice(["+", "-", "*"]), ["v", d], ["v", d2]]
        data = ["p", data, t_mem]
        # enable expression
        eform = rng.choice(["cmp", "cmp", "sig", "arith"]) if stratum != "enable_shared" else "named"
        if stratum == "shared_input":
            eform = "cmp"
        if stratum == "multi_cell_same_enable":
            if shared is None:
                eform = rng.choice(["cmp", "cmp", "sig", "arith"])
                shared = (en_in, thr, eform, rng.choice(CMP_OPS))
            eform = shared[2]
        if eform == "cmp":
            en = ["c", shared[3] if shared else rng.choice(CMP_OPS), ["v", en_in], ["n", thr]]
        elif eform == "sig":
            en = ["v", en_in]
            edges[en_in] = [0, 1, 1, 0, 2, 7]
        elif eform == "arith":
            en = ["b", "-", ["v", en_in], ["n", thr]]
        else:
            prog.append(["sig", "en%d" % ci, ["c", rng.choice(CMP_OPS), ["v", en_in], ["n", thr]]])
            prog.append(["sig", "enuse%d" % ci, ["p", ["b", "+", ["v", "en%d" % ci], ["n", 0]], types.fresh()]])
            en = ["v", "en%d" % ci]
        m = "m%d" % ci
        prog.append(["mem", m, t_mem])
        prog.append(["write", m, data, en])
        nread = rng.randint(1, 4)
        kinds = rng.sample(["proj", "arith", "cmp", "alias", "lamp", "addsame", "addsame"], k=min(nread, 5))
        for kd in kinds:
            nm = "r%d" % k
            k += 1
            if kd == "proj":
                prog.append(["sig", nm, ["p", ["r", m], types.fresh()]])
            elif kd == "arith":
                prog.append(["sig", nm, ["p", ["b", rng.choice(["+", "*", "-"]), ["r", m], ["n", rng.randint(2, 9)]], types.fresh()]])
            elif kd == "cmp":
                prog.append(["sig", nm, ["p", ["c", rng.choice(CMP_OPS), ["r", m], ["n", rng.randint(-3, 9)]], types.fresh()]])
            elif kd == "addsame":
                # the cell's value plus a declared input ON THE CELL'S OWN SIGNAL TYPE (read after the write)
                same = "w%d" % k
                prog.append(["input", same, t_mem, rng.randint(1, 9)])
                edges[same] = [0, 1, 5, -3, 120]
                e_ = ["b", "+", ["r", m], ["v", same]] if rng.random() < 0.5 else ["b", "+", ["v", same], ["r", m]]
                prog.append(["sig", nm, ["p", e_, types.fresh()] if rng.random() < 0.5 else e_])
            elif kd == "alias":
                prog.append(["sig", nm, ["r", m]])
            else:
                prog.append(["place", "lamp%d" % k, "small-lamp", ["n", 2 * k], ["n", 20], None])
                prog.append(["set", "lamp%d" % k, "enable", ["c", ">", ["r", m], ["n", rng.randint(-3, 9)]]])
    return prog, edges


F_LOCKED = "C03-cell-read-and-its-data-source-both-locked-to-red"


def data_meets_read(prog):
    """Scope of F_LOCKED: some expression has, as the two operands of one operation, the read of a cell and a bare
    signal of the cell's own type that is also (part of) what that cell's write() stores."""
    types = {s[1]: s[2] for s in prog if s[0] == "input"}
    mems = {s[1]: s[2] for s in prog if s[0] == "mem"}
    data_names = {}
    for s in prog:
        if s[0] == "write":
            names = set()
            lang.walk_expr(s[2], lambda e, _n=names: _n.add(e[1]) if e[0] == "v" else None)
            data_names[s[1]] = names
    hit = []

    def visit(e):
        if e[0] in ("b", "c") and len(e) == 4:
            for x, y in ((e[2], e[3]), (e[3], e[2])):
                if x[0] == "r" and y[0] == "v" and y[1] in data_names.get(x[1], ()) and types.get(y[1]) == mems.get(x[1]):
                    hit.append(e)

    for s in prog:
        if s[0] == "sig":
            lang.walk_expr(s[2], visit)
    return bool(hit)


def build_data_meets_read(rng):
    """The cell's data source and the cell's own read meet in one consumer on the cell's signal type
    (`Signal d = v - m.read()`, the usual "has the value changed" idiom)."""
    types = gen.Types(rng)
    t_mem = types.fresh()
    prog = [["input", "d0", t_mem, gen.rand_value(rng, True)], ["input", "e0", types.fresh(), rng.randint(0, 1)]]
    edges = {"d0": [0, 1, -1, 5, -7, 100], "e0": [0, 1, 1, 0, 2]}
    prog.append(["mem", "m0", t_mem])
    prog.append(["write", "m0", ["v", "d0"], ["c", ">", ["v", "e0"], ["n", 0]]])
    e_ = ["b", rng.choice(["-", "+"]), ["v", "d0"], ["r", "m0"]] if rng.random() < 0.5 else ["b", "-", ["r", "m0"], ["v", "d0"]]
    prog.append(["sig", "r0", ["p", e_, types.fresh()] if rng.random() < 0.5 else e_])
    prog.append(["sig", "r1", ["p", ["r", "m0"], types.fresh()]])
    return prog, edges


def gen_cases(tier, seed):
    n = 160 if tier == "quick" else 1500
    nhist = 3 if tier == "quick" else 8
    rng = random.Random(3000017 * seed + 5)
    strata = ["basic"] * 5 + ["shared_input"] * 2 + ["enable_shared"] * 1 + ["multi_cell"] * 2 + ["multi_cell_same_enable"] * 2 + ["data_meets_read"] * 1
    cases = []
    for i in range(n):
        st = rng.choice(strata)
        sub = random.Random(rng.randrange(1 << 60))
        prog, edges = build_data_meets_read(sub) if st == "data_meets_read" else build(sub, st)
        c = _mk(prog, st, sub, edges=edges, nhist=nhist, nsteps=sub.randint(8, 40 if tier == "thorough" else 24))
        c["id"] = i
        cases.append(c)
    return cases


def make_history(prog, edges, nsteps, rng):
    ins = [s for s in prog if s[0] == "input"]
    cur = {s[1]: s[3] for s in ins}
    steps = [dict(cur)]
    names = [s[1] for s in ins]
    for _ in range(nsteps):
        nm = rng.choice(names)
        pool = edges.get(nm)
        v = rng.choice(pool) if pool and rng.random() < 0.8 else gen.rand_value(rng, rng.random() < 0.5)
        steps.append({nm: v})
    return steps


def reference(prog, steps):
    """Per-step list of candidate expectation dicts (name -> ('sig', type, value)) and entity truths."""
    inputs = {}
    state = {}
    unknown = set()
    prev = {}
    out = []
    held_nonzero = False
    for st in steps:
        inputs.update(st)
        it = lang.Interp(prog, dict(inputs), mem=dict(state)).run()
        for mid in it.mems:
            state.setdefault(mid, 0)
        cands = [dict(state)]
        for mid, kind, data, en, _stmt in it.writes:
            e = 1 if en is None else en.value
            p = prev.get(mid)
            new_cands = []
            for cs in cands:
                if e > 0:
                    cs = dict(cs)
                    cs[mid] = data.value
                    unknown.discard(mid)
                    new_cands.append(cs)
                elif e == 0:
                    new_cands.append(cs)
                    if p is not None and p[1] > 0 and p[0] != data.value:
                        alt = dict(cs)
                        alt[mid] = data.value
                        new_cands.append(alt)
                    if p is not None and p[0] != data.value and cs.get(mid, 0) != 0:
                        held_nonzero = True
                else:
                    unknown.add(mid)
                    new_cands.append(cs)
            cands = new_cands[:8]
            prev[mid] = (data.value, e)
        state = cands[0]
        exps = []
        for cs in cands:
            it2 = lang.Interp(prog, dict(inputs), mem=dict(cs)).run()
            exps.append((sem.expected_of(it2), it2))
        out.append({"cands": exps, "unknown": bool(unknown)})
    return out, held_nonzero


def check_history(ex, which, prog, steps, ref, mixed="and_precedence"):
    recs, sim = stateful.held_history(ex, which, steps, mixed=mixed)
    # entity observation needs the sim at each step; re-run stepwise for lamps
    mism = []
    compared = 0
    for i, (rec, rf) in enumerate(zip(recs, ref)):
        if rec["missing"]:
            return None, 0, "declared input(s) %s not found by their label" % rec["missing"]
        if not rec["stable"]:
            mism.append({"step": i, "what": "did not settle / not stable while held", "settle": rec["settle"]})
            break
        if rf["unknown"]:
            continue
        obs = {"settled": rec["settle"], "out": rec["obs"], "const": {}}
        best = None
        for exp, _it in rf["cands"]:
            mm, c, _nz = sem.compare_outputs(exp, obs, skip=set(s[1] for s in prog if s[0] == "input"))
            if not mm:
                best = []
                compared += c
                break
            if best is None or len(mm) < len(best):
                best = mm
        if best:
            mism.append({"step": i, "inputs_changed": steps[i], "mismatches": best[:3]})
            break
    return mism, compared, None


def check_lamps(ex, which, prog, steps, ref):
    """Step-wise replay evaluating entity conditions (needs the live sim)."""
    sim = ex.sim(which)
    bound = 2 * len(sim._comb) + 10
    mism = []
    compared = 0
    for i, (st, rf) in enumerate(zip(steps, ref)):
        stateful.apply_step(sim, ex, st)
        if sim.settle(bound) is None:
            break
        if rf["unknown"]:
            continue
        ok_any = False
        last = None
        for _exp, it in rf["cands"]:
            if not it.enables:
                return [], 0
            mm, c = sem.compare_entities(ex, sim, it)
            if not mm:
                ok_any = True
                compared += c
                break
            last = mm
        if not ok_any:
            mism.append({"step": i, "inputs_changed": st, "mismatches": last[:3]})
            break
    return mism, compared


def run_case(case):
    prog = case["prog"]
    src, lines, b = sem.compile_prog(prog, case)
    shape = lang.shape_of(prog)
    base = {"shape": shape, "stratum": case["stratum"]}
    if not b.ok:
        return dict(base, verdict="vacuous", why="rejected: " + str(b.error)[:300], src=src)
    ex = sem.Exec(b, prog)
    rng = random.Random(case["hseed"])
    total_steps = 0
    compared = 0
    nontrivial = False
    sample = None
    for h in range(case["nhist"]):
        steps = make_history(prog, case.get("edges") or {}, case["nsteps"], rng)
        ref, held_nonzero = reference(prog, steps)
        total_steps += len(steps)
        mism, c, und = check_history(ex, "phys", prog, steps, ref)
        if und:
            return dict(base, verdict="inconclusive", why=und, src=src, evaluations=total_steps)
        compared += c
        if not mism:
            m2, c2 = check_lamps(ex, "phys", prog, steps, ref)
            mism = m2
            compared += c2
        nontrivial = nontrivial or held_nonzero
        if sample is None and held_nonzero:
            sample = {"source": src, "history": steps[:12], "steps": len(steps)}
        if mism:
            def replay(which):
                mm, _c, _u = check_history(ex, which, prog, steps, ref)
                if not mm:
                    mm, _c2 = check_lamps(ex, which, prog, steps, ref)
                return mm

            try:
                lmm = replay("log")
            except Exception as exn:  # noqa: BLE001
                lmm = [{"logical_error": repr(exn)}]
            from .. import wiring

            if lmm:
                stage, detail = "upstream", {"logical_mismatches": lmm[:2]}
            elif wiring.physical_partition(b.bp) == wiring.planned_partition(b.bp, b.cap):
                stage, detail = sem.K1, {}
            else:
                stage, detail = "wiring", {"partition_diff": wiring.partition_diff(
                    wiring.physical_partition(b.bp), wiring.planned_partition(b.bp, b.cap))}
            witness = {"source": src, "history": steps, "mismatches": mism, "stage": stage, "detail": detail}
            res = dict(base, verdict="violated", nontrivial=True, witness=witness, evaluations=total_steps,
                       why="%s: %s" % (stage, str(mism[0])[:300]))
            if (b.cap or {}).get("coloring_ok") is False and data_meets_read(prog):
                # the compiler's own colour planner reports the conflict it could not resolve
                res["finding"] = F_LOCKED
                res["why"] = "%s (%s): %s" % (F_LOCKED, stage, str(mism[0])[:260])
            elif stage == sem.K1:
                res["finding"] = sem.K1
            return res
    if compared == 0:
        return dict(base, verdict="inconclusive", why="nothing compared", src=src, evaluations=total_steps)
    return dict(base, verdict="held", nontrivial=nontrivial, evaluations=total_steps,
                monitors={"plan": 1, "solver": len(b.solves)},
                sample=sample or {"source": src, "steps": total_steps})
