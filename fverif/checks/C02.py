"""C02 - bundle operations act member-wise and never leak foreign signals."""
from __future__ import annotations

import random

from .. import gen, lang, sem
from ..lang import ARITH_OPS, CMP_OPS

PROPERTY = "C02"
LEVEL = "exploration"
TIMEOUT = 240
BUDGET = {"quick": 600, "thorough": 3600}
RULE = ("Seeded stratified random stateless bundle programs (literals with constant / input / computed / nested "
        "members, each-arithmetic with constant and signal scalars, filters with copy and constant outputs, "
        "gating, any/all with constant and signal thresholds, selection, chains, and compositional expressions: anonymous "
        "literals / intermediate results as operands, selections as scalars / thresholds / conditions / literal "
        "members, int variables, literal-left and compound conditions) compiled by the real compiler and executed in the circuit model "
        "for boundary-biased valuations including zero and negative members; the WHOLE signal map on every "
        "named bundle's output anchor is compared for equality with the reference map (so leaked or altered "
        "members are visible), scalar results by their own signal. Non-trivial: some compared result non-zero; "
        "distinct = program shapes with names/constants erased.")
ASSUMPTIONS = [
    "circuit model fverif/fsim.py: `each` iterates over every non-zero signal of the operand's selected networks (no exclusion of the scalar's signal); everything is true on empty input, anything false",
    "a bundle is the map of its non-zero members; an operation result of 0 is an absent member",
    "shift amounts outside 0..31, negative exponents and INT_MIN/-1 are unspecified: valuations that reach them are skipped",
]


def _mk(prog, stratum, rng, nval, **kw):
    c = {"stratum": stratum, "prog": prog, "nval": nval, "vseed": rng.randrange(1 << 30),
         "sseed": rng.randrange(1 << 30), "pseed": rng.randrange(1 << 30)}
    c.update(kw)
    return c


class B:
    """Bundle program builder."""

    def __init__(self, rng):
        self.rng = rng
        self.types = gen.Types(rng)
        self.prog = []
        self.n = 0
        self.members = {}  # bundle var -> list of member types
        self.member_inputs = {}  # bundle var -> names of the inputs that ARE members of it

    def inp(self, t=None, val=None, small=True):
        name = "m%d" % self.n
        self.n += 1
        t = t or self.types.fresh()
        self.prog.append(["input", name, t, gen.rand_value(self.rng, small) if val is None else val])
        return name, t

    def literal(self, name, k_const=None, k_in=None, k_comp=None):
        rng = self.rng
        k_const = rng.randint(0, 3) if k_const is None else k_const
        k_in = rng.randint(0, 3) if k_in is None else k_in
        k_comp = rng.randint(0, 1) if k_comp is None else k_comp
        if k_const + k_in + k_comp == 0:
            k_const = 1
        if k_in == 1 and k_const + k_comp == 0:
            # `{ m0 }` alone relabels the input's combinator with the bundle's name (a C20
            # matter); keep the input drivable here
            k_const = 1
        elems, types = [], []
        for _ in range(k_const):
            t = self.types.fresh()
            v = rng.choice([0, 1, -1, 2, 5, -7, 100, rng.randint(-1000, 1000)])
            elems.append(["t", t, ["n", v]])
            types.append(t)
        for _ in range(k_in):
            nm, t = self.inp()
            elems.append(["v", nm])
            types.append(t)
            self.member_inputs.setdefault(name, []).append(nm)
        for _ in range(k_comp):
            nm, _t = self.inp()
            t = self.types.fresh()
            elems.append(["p", ["b", rng.choice(["+", "*", "-"]), ["v", nm], ["n", rng.randint(1, 9)]], t])
            types.append(t)
        rng.shuffle(elems)
        self.prog.append(["bun", name, ["B", elems]])
        self.members[name] = types
        return name

    def scalar(self, in_set_of=None):
        """A scalar input; optionally typed like a member of bundle `in_set_of`."""
        if in_set_of and in_set_of.startswith("member:"):
            # the scalar IS one of the bundle's own member sources (`Bundle b = { s, t }; b * s`)
            cands = self.member_inputs.get(in_set_of[7:]) or []
            if cands:
                return self.rng.choice(cands), None
            in_set_of = in_set_of[7:]
        if in_set_of and self.members.get(in_set_of):
            t = self.rng.choice(self.members[in_set_of])
            return self.inp(t=t)
        return self.inp()


def s_literal(rng, nval):
    b = B(rng)
    b.literal("r")
    if rng.random() < 0.5:
        b.literal("q", k_const=1, k_in=1, k_comp=0)
        b.prog.append(["bun", "nest", ["B", [["v", "r"], ["v", "q"]]]])
    if rng.random() < 0.2:
        b.prog.append(["bun", "empty", ["B", []]])
    return _mk(b.prog, "literal", rng, nval)


def s_arith(rng, nval):
    b = B(rng)
    b.literal("r")
    op = rng.choice(ARITH_OPS)
    mode = rng.choice(["const", "sig_out", "sig_in", "sig_member"])
    if op in ("<<", ">>"):
        sc = ["n", rng.randint(0, 31)]
        mode = "const"
    elif op == "**":
        sc = ["n", rng.choice([0, 1, 2, 3, 5])]
        mode = "const"
    elif mode == "const":
        sc = ["n", rng.choice([0, 1, -1, 2, 3, -3, 10, 255, rng.randint(-1000, 1000)])]
    else:
        nm, _t = b.scalar({"sig_in": "r", "sig_member": "member:r"}.get(mode))
        sc = ["v", nm]
    b.prog.append(["bun", "x", ["bb", op, ["v", "r"], sc]])
    return _mk(b.prog, "each_arith_" + mode, rng, nval)


def s_filter(rng, nval):
    b = B(rng)
    b.literal("r")
    op = rng.choice(CMP_OPS)
    mode = rng.choice(["const", "sig_out", "sig_in", "sig_member"])
    if mode == "const":
        sc = ["n", rng.choice([0, 1, -1, 2, 5, 10, -5])]
    else:
        nm, _t = b.scalar({"sig_in": "r", "sig_member": "member:r"}.get(mode))
        sc = ["v", nm]
    out = "copy" if rng.random() < 0.6 else ["n", rng.choice([1, 2, -1, 7])]
    b.prog.append(["bun", "x", ["bf", op, ["v", "r"], sc, out]])
    return _mk(b.prog, "filter_%s_%s" % (mode, "copy" if out == "copy" else "const"), rng, nval, small=True)


def s_gate(rng, nval):
    b = B(rng)
    b.literal("r")
    inside = rng.random() < 0.4
    nm, _t = b.scalar(rng.choice(["r", "member:r"]) if inside else None)
    thr = rng.randint(-3, 8)
    b.prog.append(["bun", "x", ["bg", ["c", rng.choice(CMP_OPS), ["v", nm], ["n", thr]], ["v", "r"]]])
    return _mk(b.prog, "gating_cond_%s" % ("inside" if inside else "outside"), rng, nval,
               edges={nm: list(range(-5, 10))})


def s_gate_shared_cond(rng, nval):
    """Several bundles gated by one and the same condition (written twice, or named once): each result is its own
    bundle, whatever the optimiser shares."""
    b = B(rng)
    b.literal("r")
    b.literal("q")
    nm, _t = b.scalar(None)
    thr = rng.randint(-3, 8)
    op = rng.choice(CMP_OPS)
    if rng.random() < 0.5:
        cond1 = cond2 = ["c", op, ["v", nm], ["n", thr]]
    else:
        b.prog.append(["sig", "ok", ["c", op, ["v", nm], ["n", thr]]])
        cond1 = cond2 = ["v", "ok"]
    b.prog.append(["bun", "x", ["bg", cond1, ["v", "r"]]])
    b.prog.append(["bun", "y", ["bg", cond2, ["v", "q"]]])
    if rng.random() < 0.4:
        b.prog.append(["bun", "z", ["bg", cond1, ["v", "r"]]])      # the same gate twice: may be shared
    return _mk(b.prog, "gating_shared_condition", rng, nval, edges={nm: list(range(-5, 10))})


def s_gate_then_op_same_scalar(rng, nval):
    """`((s CMP k) : r) OP s` and `((r CMP s) : r) OP s`: the scalar drives the gate / filter AND is the operand of the
    each-operation that consumes the result (its fan-out chain runs between the two combinators)."""
    b = B(rng)
    b.literal("r")
    nm, _t = b.scalar(None)
    thr = rng.randint(-3, 8)
    if rng.random() < 0.6:
        inner = ["bg", ["c", rng.choice(CMP_OPS), ["v", nm], ["n", thr]], ["v", "r"]]
    else:
        inner = ["bf", rng.choice(CMP_OPS), ["v", "r"], ["v", nm], "copy"]
    b.prog.append(["bun", "x", ["bb", rng.choice(["+", "*", "-", "/"]), inner, ["v", nm]]])
    if rng.random() < 0.5:
        b.prog.append(["sig", "other", ["p", ["b", "+", ["v", nm], ["n", 1]], b.types.fresh()]])
    return _mk(b.prog, "gate_then_op_same_scalar", rng, nval, edges={nm: list(range(-5, 10))})


def s_anyall(rng, nval):
    b = B(rng)
    b.literal("r", k_const=rng.randint(0, 2), k_in=rng.randint(1, 3), k_comp=0)
    thr = None
    if rng.random() < 0.5:
        thr, _t = b.scalar(rng.choice(["r", "member:r", None, None]))
    for i in range(rng.randint(1, 3)):
        k = rng.choice(["any", "all"])
        sc = ["v", thr] if thr and rng.random() < 0.7 else ["n", rng.randint(-3, 8)]
        b.prog.append(["sig", "q%d" % i, [k, rng.choice(CMP_OPS), ["v", "r"], sc]])
    edges = {s[1]: list(range(-4, 10)) for s in b.prog if s[0] == "input"}
    return _mk(b.prog, "any_all" + ("_signal_threshold" if thr else ""), rng, nval, edges=edges)


def s_select(rng, nval):
    b = B(rng)
    b.literal("r", k_const=1, k_in=2, k_comp=0)
    t = rng.choice(b.members["r"])
    b.prog.append(["sig", "s0", ["bs", ["v", "r"], t]])
    t2 = rng.choice(b.members["r"])
    b.prog.append(["sig", "s1", ["p", ["b", rng.choice(["+", "*", "-"]), ["bs", ["v", "r"], t2], ["n", rng.randint(1, 9)]], b.types.fresh()]])
    return _mk(b.prog, "selection", rng, nval)


def s_chain(rng, nval):
    b = B(rng)
    b.literal("r")
    cur = "r"
    for i in range(rng.randint(2, 3)):
        k = rng.choice(["arith", "filter", "gate", "merge"])
        name = "c%d" % i
        if k == "arith":
            op = rng.choice(["+", "-", "*", "/", "%", "AND", "XOR"])
            e = ["bb", op, ["v", cur], ["n", rng.choice([1, 2, 3, -2, 10])]]
        elif k == "filter":
            e = ["bf", rng.choice(CMP_OPS), ["v", cur], ["n", rng.randint(-3, 8)], "copy"]
        elif k == "gate":
            nm, _t = b.scalar()
            e = ["bg", ["c", rng.choice(CMP_OPS), ["v", nm], ["n", rng.randint(-3, 8)]], ["v", cur]]
        else:
            t = b.types.fresh()
            e = ["B", [["v", cur], ["t", t, ["n", rng.randint(1, 50)]]]]
        b.prog.append(["bun", name, e])
        b.members[name] = b.members.get(cur, [])
        cur = name
    b.prog.append(["sig", "fin", ["any", ">", ["v", cur], ["n", 0]]])
    return _mk(b.prog, "chain", rng, nval, small=True)


def s_shared_source(rng, nval):
    """A member source shared with another consumer (K1-exposed by construction)."""
    b = B(rng)
    nm, t = b.inp()
    t2 = b.types.fresh()
    b.prog.append(["bun", "r", ["B", [["v", nm], ["t", t2, ["n", rng.randint(1, 50)]]]]])
    b.prog.append(["bun", "e", ["bb", "+", ["v", "r"], ["n", 10]]])
    b.prog.append(["sig", "other", ["p", ["b", "+", ["v", nm], ["n", 1]], b.types.fresh()]])
    b.prog.append(["bun", "e2", ["bb", "*", ["B", [["v", nm]]], ["n", 3]]])
    return _mk(b.prog, "shared_member_source", rng, nval)


def s_nested_member_scalar(rng, nval):
    """`Bundle inner = { s, t }; Bundle q = { inner, u };` (or the nested literal) with s - a member of the INNER bundle -
    as the scalar of an each-operation, a filter threshold or an any()/all() threshold on q."""
    b = B(rng)
    s_nm, _ = b.inp()
    t_nm, _ = b.inp()
    u_nm, _ = b.inp()
    if rng.random() < 0.5:
        b.prog.append(["bun", "inner", ["B", [["v", s_nm], ["v", t_nm]]]])
        b.prog.append(["bun", "q", ["B", [["v", "inner"], ["v", u_nm]]]])
    else:
        b.prog.append(["bun", "q", ["B", [["B", [["v", s_nm], ["v", t_nm]]], ["v", u_nm]]]])
    sc = ["v", rng.choice([s_nm, s_nm, t_nm, u_nm])]
    for i in range(rng.randint(1, 3)):
        form = rng.choice(["each", "filter", "filterk", "any", "all"])
        if form == "each":
            b.prog.append(["bun", "x%d" % i, ["bb", rng.choice(["*", "+", "-"]), ["v", "q"], sc]])
        elif form == "filter":
            b.prog.append(["bun", "x%d" % i, ["bf", rng.choice(CMP_OPS), ["v", "q"], sc, "copy"]])
        elif form == "filterk":
            b.prog.append(["bun", "x%d" % i, ["bf", rng.choice(CMP_OPS), ["v", "q"], sc, ["n", rng.choice([1, 3])]]])
        else:
            b.prog.append(["sig", "x%d" % i, [form, rng.choice(CMP_OPS), ["v", "q"], sc]])
    edges = {n_: list(range(-4, 8)) for n_ in (s_nm, t_nm, u_nm)}
    return _mk(b.prog, "nested_bundle_member_as_scalar", rng, nval, small=True, edges=edges)


def s_compose(rng, nval):
    """Compositional bundle expressions: anonymous literals and intermediate results as operands, selections as scalar
    operands / thresholds / gating conditions / literal members, int variables as constants, literal-left and compound
    conditions, several operations on one bundle."""
    b = B(rng)
    b.literal("r", k_const=rng.randint(1, 2), k_in=rng.randint(1, 2), k_comp=0)
    if rng.random() < 0.5:
        b.literal("q", k_const=1, k_in=1, k_comp=0)
    b.prog.append(["int", "kk", ["n", rng.choice([2, 3, 4, -2])]])
    s_nm, s_t = b.inp()
    buns = [n for n in b.members]

    def scalar(depth=0):
        f = rng.choice(["n", "n", "in", "int", "sel", "selexpr"])
        if f == "n":
            return ["n", rng.choice([0, 1, -1, 2, 3, 5, 10])]
        if f == "in":
            return ["v", s_nm]
        if f == "int":
            return ["v", "kk"]
        bn = rng.choice(buns)
        if f == "sel" or depth > 0:
            return ["bs", ["v", bn], rng.choice(b.members[bn])]
        # a member-preserving operation on bn, so that the selected type is statically a member
        inner = ["bb", rng.choice(["+", "*", "AND", "-"]), ["v", bn], rng.choice([["n", rng.randint(1, 7)], ["v", "kk"], ["v", s_nm]])]
        return ["bs", inner, rng.choice(b.members[bn])]

    def anon():
        k = rng.randint(1, 3)
        return ["B", [["t", b.types.fresh(), ["n", rng.choice([1, 2, 7, -3, 40])]] for _ in range(k)]]

    def cond():
        f = rng.choice(["cmp", "cmp", "litleft", "and", "or", "sel"])
        a = ["v", s_nm]
        if f == "cmp":
            return ["c", rng.choice(CMP_OPS), a, ["n", rng.randint(-3, 8)]]
        if f == "litleft":
            return ["c", rng.choice(CMP_OPS), ["n", rng.randint(-3, 8)], a]
        if f == "sel":
            bn = rng.choice(buns)
            return ["c", rng.choice(CMP_OPS), ["bs", ["v", bn], rng.choice(b.members[bn])], ["n", rng.randint(-3, 8)]]
        return ["&&" if f == "and" else "||", ["c", rng.choice(CMP_OPS), a, ["n", rng.randint(-3, 8)]],
                ["c", rng.choice(CMP_OPS), a, ["n", rng.randint(-3, 8)]]]

    def bexpr(depth=0):
        f = rng.choice(["var", "var", "anon", "bb", "bb", "bf", "bf", "bg", "lit"] if depth < 2 else ["var", "anon"])
        if f == "var":
            return ["v", rng.choice(buns)]
        if f == "anon":
            return anon()
        if f == "bb":
            op = rng.choice(["+", "-", "*", "/", "%", "AND", "OR", "XOR"])
            return ["bb", op, bexpr(depth + 1), scalar(depth)]
        if f == "bf":
            out = rng.choice(["copy", "copy", ["n", rng.choice([1, 2, -1, 7])], ["v", "kk"]])
            return ["bf", rng.choice(CMP_OPS), bexpr(depth + 1), scalar(depth), out]
        if f == "bg":
            return ["bg", cond(), bexpr(depth + 1)]
        bn = rng.choice(buns)
        return ["B", [["bs", ["v", bn], rng.choice(b.members[bn])], ["t", b.types.fresh(), ["n", rng.randint(1, 9)]]]]

    n = rng.randint(1, 3)
    for i in range(n):
        e = bexpr(0)
        if e[0] == "v":
            e = ["bb", rng.choice(["+", "*"]), e, scalar()]
        b.prog.append(["bun", "x%d" % i, e])
        if rng.random() < 0.3:
            buns.append("x%d" % i)
            b.members["x%d" % i] = []
            buns.pop()   # results have data-dependent members: not used for selection
    if rng.random() < 0.4:
        bn = rng.choice(buns)
        b.prog.append(["sig", "y", ["p", ["b", rng.choice(["+", "*"]), ["bs", ["bb", rng.choice(["+", "AND", "*"]), ["v", bn], ["n", rng.randint(1, 5)]], rng.choice(b.members[bn])], scalar(1)], b.types.fresh()]])
    edges = {s_nm: list(range(-4, 10))}
    return _mk(b.prog, "composed_expressions", rng, nval, small=True, edges=edges)


STRATA = [(s_literal, 3), (s_arith, 6), (s_filter, 5), (s_gate, 3), (s_gate_shared_cond, 3), (s_gate_then_op_same_scalar, 3), (s_anyall, 3), (s_select, 2), (s_chain, 4),
          (s_shared_source, 1), (s_compose, 8), (s_nested_member_scalar, 3)]


def gen_cases(tier, seed):
    n = 300 if tier == "quick" else 4000
    nval = 16 if tier == "quick" else 40
    rng = random.Random(2000003 * seed + 29)
    weights = [w for _f, w in STRATA]
    cases = []
    for i in range(n):
        f = rng.choices([f for f, _w in STRATA], weights)[0]
        sub = random.Random(rng.randrange(1 << 60))
        c = f(sub, nval)
        c["id"] = i
        cases.append(c)
    return cases


def run_case(case):
    return sem.run_stateless_case(case)
