"""Worker process: python -m fverif.worker <check module>.

Reads JSON cases on stdin, answers with '@@R <json>' lines (anything else the
compiler prints to stdout is ignored by the parent)."""
from __future__ import annotations

import importlib
import json
import sys
import traceback


def main():
    modname = sys.argv[1]
    mod = importlib.import_module("fverif.checks." + modname)
    from fverif import driver

    driver.setup()
    if hasattr(mod, "worker_init"):
        mod.worker_init()
    out = sys.stdout
    for line in sys.stdin:
        line = line.strip()
        if not line:
            continue
        case = json.loads(line)
        try:
            res = mod.run_case(case)
        except BaseException as ex:  # noqa: BLE001
            if isinstance(ex, (KeyboardInterrupt, SystemExit)):
                raise
            res = {"verdict": "inconclusive", "why": "harness exception: %s" % traceback.format_exc()[-1500:]}
        out.write("@@R " + json.dumps(res, default=str) + "\n")
        out.flush()


if __name__ == "__main__":
    main()
