"""Generators of larger mixed programs for layout-centric checks (C08, C09, C12, C18, C19)."""
from __future__ import annotations

import random

from . import gen
from .lang import CMP_OPS

PLACEABLE = [("small-lamp", 1, 1), ("inserter", 1, 1), ("transport-belt", 1, 1), ("steel-chest", 1, 1),
             ("train-stop", 2, 2), ("assembling-machine-1", 3, 3), ("storage-tank", 3, 3), ("pump", 1, 2),
             ("power-switch", 2, 2), ("wooden-chest", 1, 1)]


def mixed_program(rng: random.Random, size="small", far=False, prefix="", counters=True):
    """A program with computations, memory cells, latches and user-placed entities.

    size: small (~5-25 entities), medium (~30-90), large (~100-400)."""
    types = gen.Types(rng)
    P = prefix
    prog = []
    n_in = {"small": rng.randint(2, 3), "medium": rng.randint(3, 6), "large": rng.randint(5, 10)}[size]
    ins = []
    for i in range(n_in):
        nm = "%si%d" % (P, i)
        prog.append(["input", nm, types.fresh(), rng.randint(-5, 20)])
        ins.append(nm)
    sigs = list(ins)
    n_stmt = {"small": rng.randint(2, 6), "medium": rng.randint(10, 30), "large": rng.randint(40, 150)}[size]
    for k in range(n_stmt):
        a, b = rng.choice(sigs), rng.choice(sigs)
        form = rng.choice(["arith", "arith", "cmp", "sel", "chain"])
        nm = "%sv%d" % (P, k)
        try:
            t = types.fresh()
        except RuntimeError:
            types = gen.Types(rng)
            t = types.fresh()
        if form == "arith":
            e = ["p", ["b", rng.choice(["+", "-", "*", "/", "%", "AND", "XOR"]), ["v", a], rng.choice([["v", b], ["n", rng.randint(1, 9)]])], t]
        elif form == "cmp":
            e = ["p", ["c", rng.choice(CMP_OPS), ["v", a], ["n", rng.randint(-3, 20)]], t]
        elif form == "sel":
            e = ["s", ["c", rng.choice(CMP_OPS), ["v", a], ["n", rng.randint(-3, 20)]], ["v", b]]
        else:
            e = ["p", ["&&", ["c", ">", ["v", a], ["n", rng.randint(-3, 9)]], ["c", "<", ["v", b], ["n", rng.randint(5, 30)]]], t]
        prog.append(["sig", nm, e])
        sigs.append(nm)
    # memory cells and latches (explicit module wires)
    n_mem = {"small": rng.randint(0, 1), "medium": rng.randint(1, 3), "large": rng.randint(2, 8)}[size]
    for m in range(n_mem):
        try:
            mt = types.fresh()
        except RuntimeError:     # a large program uses more names than the pool holds: start over (types may repeat)
            types = gen.Types(rng)
            mt = types.fresh()
        mn = "%sm%d" % (P, m)
        prog.append(["mem", mn, mt])
        kind = rng.choice(["when", "latch_sr", "latch_rs", "counter"] if counters else ["when", "latch_sr", "latch_rs"])
        a, b = rng.choice(ins), rng.choice(ins)
        if kind == "when":
            prog.append(["write", mn, ["p", ["v", rng.choice(sigs)], mt], ["c", ">", ["v", a], ["n", rng.randint(0, 9)]]])
        elif kind == "counter":
            prog.append(["write", mn, ["p", ["b", "+", ["r", mn], ["n", 1]], mt], None])
        else:
            val = rng.choice([["n", 1], ["n", rng.randint(2, 50)]])
            prog.append(["latch", mn, val, ["c", "<", ["v", a], ["n", rng.randint(0, 5)]],
                         ["c", ">", ["v", a], ["n", rng.randint(6, 15)]], "sr" if kind == "latch_sr" else "rs"])
        try:
            rt = types.fresh()
        except RuntimeError:
            types = gen.Types(rng)
            rt = types.fresh()
        prog.append(["sig", "%smr%d" % (P, m), ["p", ["b", "+", ["r", mn], ["n", rng.randint(0, 3)]], rt]])
        sigs.append("%smr%d" % (P, m))
    # user-placed entities, some far apart / negative
    n_ent = {"small": rng.randint(0, 3), "medium": rng.randint(2, 8), "large": rng.randint(5, 25)}[size]
    used = []
    spread = 60 if far else 14
    ox, oy = (rng.randint(-40, 40), rng.randint(-40, 40)) if far else (0, 0)
    k = 0
    tries = 0
    while k < n_ent and tries < 200:
        tries += 1
        proto, w, h = rng.choice(PLACEABLE)
        x, y = ox + rng.randint(-spread // 2, spread // 2), oy + 20 + rng.randint(0, spread // 2)
        if any(x < ux + uw + 1 and ux < x + w + 1 and y < uy + uh + 1 and uy < y + h + 1 for ux, uy, uw, uh in used):
            continue
        used.append((x, y, w, h))
        en = "%se%d" % (P, k)
        prog.append(["place", en, proto, ["n", x], ["n", y], None])
        if proto not in ("steel-chest", "wooden-chest", "storage-tank") and rng.random() < 0.8:
            a = rng.choice(sigs)
            prog.append(["set", en, "enable", ["c", rng.choice(CMP_OPS), ["v", a], ["n", rng.randint(-3, 20)]]])
        k += 1
    return prog


def fanout_program(rng, n, prefix=""):
    types = gen.Types(rng)
    P = prefix
    prog = [["input", P + "a", types.fresh(), rng.randint(1, 9)]]
    prog.append(["sig", P + "src", ["p", ["b", "*", ["v", P + "a"], ["n", 3]], types.fresh()]])
    for i in range(n):
        try:
            t = types.fresh()
        except RuntimeError:
            types = gen.Types(rng)
            t = types.fresh()
        prog.append(["sig", "%sf%d" % (P, i), ["p", ["b", "+", ["v", P + "src"], ["n", i]], t]])
    return prog
