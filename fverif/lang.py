"""Program descriptions: JSON-able AST, printer, reference semantics (DESIGN.md 2.3).

Expressions (lists so that cases survive JSON round trips):
  ["n", int]                      integer literal
  ["v", name]                     variable reference
  ["t", type, cexpr]              typed literal ("type", const-expr); type str or ["ty", var]
  ["b", op, l, r]                 + - * / % ** << >> AND OR XOR
  ["c", op, l, r]                 == != < <= > >=
  ["&&", l, r]  ["||", l, r]      logical
  ["!", e]  ["neg", e]            unary
  ["p", e, type]                  projection  e | "type"   (type str or ["ty", var])
  ["s", cond, value]              cond : value
  ["r", mem]                      mem.read()
  ["call", fname, [args]]
  ["prop", ent, prop]             entity property read (unused by oracles)
 bundles:
  ["B", [elems]]                  bundle literal (elements scalar or bundle exprs)
  ["bb", op, bundle, scalar]      bundle OP scalar
  ["bf", cmpop, bundle, scalar, out]   (bundle CMP scalar) : out   out = "copy" | int-expr
  ["bg", cond, bundle]            (cond) : bundle
  ["bs", bundle, type]            bundle["type"]
  ["any", cmpop, bundle, scalar]  any(bundle) CMP scalar
  ["all", cmpop, bundle, scalar]
  ["eo", ent]                     ent.output

Statements:
  ["input", name, type|None, value]
  ["int", name, cexpr]
  ["sig", name, expr]
  ["bun", name, bexpr]
  ["mem", name, type|None]
  ["write", mem, expr, when|None]
  ["latch", mem, value, set, reset, "sr"|"rs"]
  ["place", name, proto, x, y, props|None]        Entity name = place(...)
  ["set", ent, prop, expr]                        ent.prop = expr
  ["ent", name, call]                             Entity name = f(...);   (entity-returning function)
  ["func", name, [[ptype, pname]...], body, ret|None]
  ["for", it, ["range", a, b, step|None] | ["list", [ints]], body]
  ["import", path]
  ["expr", e]
  ["assign", name, expr]                          name = expr (re-assignment / alias)
  ["raw", text]
"""
from __future__ import annotations

import random

from .fsim import arith, compare, w32

ARITH_OPS = ["+", "-", "*", "/", "%", "**", "<<", ">>", "AND", "OR", "XOR"]
CMP_OPS = ["==", "!=", "<", "<=", ">", ">="]

# precedence: higher binds tighter
PREC = {
    "||": 1, "&&": 2, ":": 3, "cmp": 4, "|": 5, "OR": 6, "XOR": 7, "AND": 8,
    "<<": 9, ">>": 9, "+": 10, "-": 10, "*": 11, "/": 11, "%": 11, "**": 12,
    "unary": 13, "primary": 14,
}


class Unspec(Exception):
    """The reference semantics does not fix this value."""


# ---------------------------------------------------------------- printer

class Printer:
    def __init__(self, rng: random.Random | None = None, style: dict | None = None):
        self.rng = rng
        st = {"parens": "min", "bases": False, "andor_words": False, "comments": False, "ws": False}
        st.update(style or {})
        self.style = st

    # -- numbers
    def num(self, v: int, ctx_safe: bool = True) -> str:
        if self.style["bases"] and self.rng is not None and v >= 0 and self.rng.random() < 0.5:
            k = self.rng.randrange(3)
            s = [hex(v), "0o%o" % v, bin(v)][k]
            if self.rng.random() < 0.3:
                s = s[:2].upper() + s[2:] if k != 1 else s
                if k == 0:
                    s = "0x" + s[2:].upper() if self.rng.random() < 0.5 else s
                    s = s[0] + s[1].lower() + s[2:]
            return s
        if v < 0 and not ctx_safe:
            return "(%d)" % v
        return str(v)

    def typ(self, t) -> str:
        if isinstance(t, (list, tuple)):
            return "%s.type" % t[1]
        return '"%s"' % t

    def expr(self, e, parent: int = 0, side: str = "") -> str:
        s, p = self._expr(e)
        full = self.style["parens"] == "full"
        need = p < parent
        if full and p < PREC["primary"]:
            need = True
        if need:
            return "(" + s + ")"
        return s

    def _bin(self, e, opname, p, rassoc=False):
        l, r = e[-2], e[-1]
        if rassoc:
            ls = self.expr(l, p + 1)
            rs = self.expr(r, p)
        else:
            ls = self.expr(l, p)
            rs = self.expr(r, p + 1)
        return "%s %s %s" % (ls, opname, rs), p

    def _expr(self, e):
        k = e[0]
        if k == "n":
            v = e[1]
            if v < 0:
                # a negative literal lexes as one NUMBER token; as an operand it
                # is unambiguous only in parentheses or on the right of an operator
                return "(%d)" % v, PREC["primary"]
            return self.num(v), PREC["primary"]
        if k == "v":
            return e[1], PREC["primary"]
        if k == "t":
            return "(%s, %s)" % (self.typ(e[1]), self.expr(e[2], 0)), PREC["primary"]
        if k == "b":
            op = e[1]
            p = PREC[op]
            return self._bin(e, op, p, rassoc=(op == "**"))
        if k == "c":
            # comparison chains are left-assoc in the grammar; never print chains bare
            l = self.expr(e[2], PREC["cmp"] + 1)
            r = self.expr(e[3], PREC["cmp"] + 1)
            return "%s %s %s" % (l, e[1], r), PREC["cmp"]
        if k in ("&&", "||"):
            op = k
            if self.style["andor_words"] and self.rng is not None and self.rng.random() < 0.5:
                op = "and" if k == "&&" else "or"
            return self._bin(e, op, PREC[k])
        if k == "!":
            return "!" + self.expr(e[1], PREC["unary"]), PREC["unary"]
        if k == "neg":
            inner = self.expr(e[1], PREC["unary"])
            if inner.startswith("-") or inner[:1].isdigit():
                inner = "(" + inner + ")"
            return "-" + inner, PREC["unary"]
        if k == "p":
            return "%s | %s" % (self.expr(e[1], PREC["|"]), self.typ(e[2])), PREC["|"]
        if k == "s":
            cond = self.expr(e[1], PREC["cmp"])
            if e[1][0] == "v":
                cond = e[1][1]
            val = self.expr(e[2], PREC["primary"])
            return "%s : %s" % (cond, val), PREC[":"]
        if k == "r":
            return "%s.read()" % e[1], PREC["primary"]
        if k == "call":
            return "%s(%s)" % (e[1], ", ".join(self.expr(a, 0) for a in e[2])), PREC["primary"]
        if k == "prop":
            return "%s.%s" % (e[1], e[2]), PREC["primary"]
        if k == "B":
            if not e[1]:
                return "{}", PREC["primary"]
            return "{ %s }" % ", ".join(self.expr(x, 0) for x in e[1]), PREC["primary"]
        if k == "bb":
            op = e[1]
            p = PREC[op]
            return self._bin(e, op, p, rassoc=(op == "**"))
        if k == "bf":
            cond = "(%s %s %s)" % (self.expr(e[2], PREC["cmp"] + 1), e[1], self.expr(e[3], PREC["cmp"] + 1))
            out = self.expr(e[2], PREC["primary"]) if e[4] == "copy" else self.expr(e[4], PREC["primary"])
            return "%s : %s" % (cond, out), PREC[":"]
        if k == "bg":
            return "(%s) : %s" % (self.expr(e[1], 0), self.expr(e[2], PREC["primary"])), PREC[":"]
        if k == "bs":
            return '%s["%s"]' % (self.expr(e[1], PREC["primary"]), e[2]), PREC["primary"]
        if k in ("any", "all"):
            return "%s(%s) %s %s" % (k, self.expr(e[2], 0), e[1], self.expr(e[3], PREC["cmp"] + 1)), PREC["cmp"]
        if k == "eo":
            return "%s.output" % e[1], PREC["primary"]
        if k == "raw":
            return e[1], PREC["primary"] if len(e) < 3 else e[2]
        raise ValueError("unknown expr %r" % (e,))

    # -- statements
    def props(self, d) -> str:
        items = []
        for k, v in d.items():
            if isinstance(v, dict):
                items.append("%s: %s" % (k, self.props(v)))
            elif isinstance(v, str):
                items.append('%s: "%s"' % (k, v))
            elif isinstance(v, (list, tuple)):
                items.append("%s: %s" % (k, self.expr(v, 0)))
            else:
                items.append("%s: %s" % (k, v))
        return "{" + ", ".join(items) + "}"

    def stmt(self, s, ind: int, out: list, lines: dict):
        pad = "    " * ind
        k = s[0]

        def emit(text, name=None):
            if self.style["comments"] and self.rng is not None and self.rng.random() < 0.2:
                out.append(pad + self.rng.choice(["# note", "// note", "#", "// x = 1;"]))
            out.append(pad + text)
            if name is not None and ind == 0:
                lines[name] = len(out)

        if k == "input":
            _, name, t, v = s
            if t is None:
                emit("Signal %s = %s;" % (name, v), name)
            else:
                emit('Signal %s = ("%s", %s);' % (name, t, v), name)
        elif k == "int":
            emit("int %s = %s;" % (s[1], self.expr(s[2], 0)), s[1])
        elif k == "sig":
            emit("Signal %s = %s;" % (s[1], self.expr(s[2], 0)), s[1])
        elif k == "bun":
            emit("Bundle %s = %s;" % (s[1], self.expr(s[2], 0)), s[1])
        elif k == "assign":
            emit("%s = %s;" % (s[1], self.expr(s[2], 0)), s[1])
        elif k == "mem":
            if s[2] is None:
                emit("Memory %s;" % s[1], s[1])
            else:
                emit('Memory %s: "%s";' % (s[1], s[2]), s[1])
        elif k == "write":
            if s[3] is None:
                emit("%s.write(%s);" % (s[1], self.expr(s[2], 0)))
            else:
                emit("%s.write(%s, when=%s);" % (s[1], self.expr(s[2], 0), self.expr(s[3], 0)))
        elif k == "latch":
            _, m, v, st, rs, order = s
            if order == "sr":
                emit("%s.write(%s, set=%s, reset=%s);" % (m, self.expr(v, 0), self.expr(st, 0), self.expr(rs, 0)))
            else:
                emit("%s.write(%s, reset=%s, set=%s);" % (m, self.expr(v, 0), self.expr(rs, 0), self.expr(st, 0)))
        elif k == "place":
            _, name, proto, x, y, props = s
            args = '"%s", %s, %s' % (proto, self.expr(x, 0), self.expr(y, 0))
            if props:
                args += ", " + self.props(props)
            if name is None:
                emit("place(%s);" % args)
            else:
                emit("Entity %s = place(%s);" % (name, args), name)
        elif k == "ent":
            emit("Entity %s = %s;" % (s[1], self.expr(s[2], 0)), s[1])
        elif k == "set":
            emit("%s.%s = %s;" % (s[1], s[2], self.expr(s[3], 0)))
        elif k == "func":
            _, name, params, body, ret = s
            emit("func %s(%s) {" % (name, ", ".join("%s %s" % (t, n) for t, n in params)))
            for b in body:
                self.stmt(b, ind + 1, out, lines)
            if ret is not None:
                out.append(pad + "    return %s;" % self.expr(ret, 0))
            out.append(pad + "}")
        elif k == "for":
            _, it, rng_, body = s
            if rng_[0] == "range":
                a, b, st = rng_[1], rng_[2], rng_[3]
                hdr = "%s..%s" % (a, b)
                if st is not None:
                    hdr += " step %s" % st
            else:
                hdr = "[%s]" % ", ".join(str(x) for x in rng_[1])
            emit("for %s in %s {" % (it, hdr))
            for b in body:
                self.stmt(b, ind + 1, out, lines)
            out.append(pad + "}")
        elif k == "import":
            emit('import "%s";' % s[1])
        elif k == "expr":
            emit("%s;" % self.expr(s[1], 0))
        elif k == "ret":
            emit("return %s;" % self.expr(s[1], 0))
        elif k == "raw":
            for ln in s[1].split("\n"):
                emit(ln)
        else:
            raise ValueError("unknown stmt %r" % (s,))

    def program(self, prog) -> tuple[str, dict]:
        out: list = []
        lines: dict = {}
        for s in prog:
            self.stmt(s, 0, out, lines)
        return "\n".join(out) + "\n", lines


def to_source(prog, rng=None, style=None):
    return Printer(rng, style).program(prog)


# ---------------------------------------------------------------- values

class Val:
    """kind: 'int' | 'sig' | 'bun' | 'ent' | 'void'.
    sig: type (str) or None when the compiler chooses the signal; value int.
    bun: members dict name->int (non-zero), plus `dyn` flag for entity outputs."""

    __slots__ = ("kind", "type", "value", "members", "ent", "cmp", "implicit_id", "k")

    def __init__(self, kind, type=None, value=0, members=None, ent=None, cmp=False, implicit_id=None, k=0):
        # k: 0 run-time value, 1 constant the compiler folds on the AST, 2 constant that is only
        # folded by IR-level constant propagation (a projection / unary op sits in between)
        self.k = k
        self.kind = kind
        self.type = type
        self.value = value
        self.members = members
        self.ent = ent
        self.cmp = cmp
        self.implicit_id = implicit_id

    def __repr__(self):
        if self.kind == "bun":
            return "Bun(%r)" % (self.members,)
        return "%s(%r,%r)" % (self.kind, self.type, self.value)


def _is_virtual_name(t):
    return t is None or t.startswith("signal-") or t.startswith("__")


class Interp:
    """Reference interpreter of program descriptions.

    inputs: name -> int   (overrides ["input"] declarations)
    mem: memory id -> int (current cell values for read())
    chest: entity name -> {signal: value} contents for .output
    """

    def __init__(self, prog, inputs=None, mem=None, chest=None, funcs=None, files=None, defects=()):
        self.prog = prog
        self.defects = set(defects)
        self.inputs = inputs or {}
        self.mem = mem or {}
        self.chest = chest or {}
        self.files = files or {}
        self.scopes = [dict()]
        self.funcs = dict(funcs or {})
        self.top: dict = {}          # top-level name -> Val (declaration order)
        self.top_lines: dict = {}
        self.mems: dict = {}         # mem id -> {"type":..., "name":...}
        self.writes: list = []       # (mem id, kind, payload)
        self.entities: list = []     # dict(proto,x,y,props,name,id)
        self.enables: dict = {}      # entity id -> (expr Val or None, raw expr)
        self.propwrites: list = []
        self._uid = 0
        self._imp = 0
        self.depth = 0
        self.notes: set = set()
        self._imported: set = set()

    # ---- scopes
    def lookup(self, name):
        for sc in reversed(self.scopes):
            if name in sc:
                return sc[name]
        raise KeyError(name)

    def define(self, name, val):
        self.scopes[-1][name] = val
        if len(self.scopes) == 1:
            self.top[name] = val

    def fresh_imp(self):
        self._imp += 1
        return self._imp

    # ---- expressions
    def sigval(self, t, v, cmp=False):
        return Val("sig", t, w32(v), cmp=cmp, implicit_id=None if t is not None else self.fresh_imp())

    def ev(self, e) -> Val:
        k = e[0]
        if k == "n":
            return Val("int", None, e[1], k=1)
        if k == "v":
            return self.lookup(e[1])
        if k == "t":
            t = self.rtype(e[1])
            v = self.ev(e[2])
            r = self.sigval(t, v.value)
            r.k = 1 if v.k else 0
            return r
        if k == "b":
            l, r = self.ev(e[2]), self.ev(e[3])
            return self.arith(e[1], l, r)
        if k == "c":
            l, r = self.ev(e[2]), self.ev(e[3])
            val = 1 if compare(e[1], l.value, r.value) else 0
            if l.kind == "int" and r.kind == "int":
                return Val("int", None, val)
            if l.kind == "sig" and _is_virtual_name(l.type):
                return Val("sig", l.type, val, cmp=True, implicit_id=l.implicit_id)
            if r.kind == "sig" and _is_virtual_name(r.type):
                return Val("sig", r.type, val, cmp=True, implicit_id=r.implicit_id)
            return self.sigval(None, val, cmp=True)
        if k in ("&&", "||"):
            l, r = self.ev(e[1]), self.ev(e[2])
            if k == "&&":
                val = 1 if (l.value != 0 and r.value != 0) else 0
            else:
                val = 1 if (l.value != 0 or r.value != 0) else 0
            if l.kind == "int" and r.kind == "int":
                return Val("int", None, val)
            src = l if l.kind == "sig" else r
            return Val("sig", src.type, val, cmp=(l.cmp or r.cmp), implicit_id=src.implicit_id)
        if k == "!":
            x = self.ev(e[1])
            val = 1 if x.value == 0 else 0
            if x.kind == "int":
                return Val("int", None, val)
            return Val("sig", x.type, val, implicit_id=x.implicit_id)
        if k == "neg":
            x = self.ev(e[1])
            if x.kind == "int":
                return Val("int", None, w32(-x.value), k=x.k)
            return Val("sig", x.type, w32(-x.value), implicit_id=x.implicit_id, k=2 if x.k else 0)
        if k == "p":
            x = self.ev(e[1])
            r = self.sigval(self.rtype(e[2]), x.value)
            if x.k:
                # a constant behind a projection is not seen by the AST-level folder: it is
                # folded (if at all) by IR-level constant propagation
                r.k = 2
            return r
        if k == "s":
            c = self.ev(e[1])
            v = self.ev(e[2])
            out = v.value if c.value != 0 else 0
            if v.kind == "int":
                lt = self._cmp_left_type(e[1])
                if lt is not None and lt.kind == "sig":
                    return Val("sig", lt.type, out, implicit_id=lt.implicit_id)
                return self.sigval(None, out)
            return Val("sig", v.type, out, implicit_id=v.implicit_id)
        if k == "r":
            m = self.lookup(e[1])
            return Val("sig", m.type, self.mem.get(m.ent, 0))
        if k == "call":
            return self.call(e[1], e[2])
        if k == "B":
            members: dict = {}
            for x in e[1]:
                v = self.ev(x)
                if v.kind == "sig":
                    if v.type is None:
                        raise Unspec("implicit member type in bundle literal")
                    members[v.type] = w32(members.get(v.type, 0) + v.value)
                elif v.kind == "bun":
                    for s_, c in v.members.items():
                        members[s_] = w32(members.get(s_, 0) + c)
                else:
                    raise Unspec("int in bundle")
            return Val("bun", members={s_: c for s_, c in members.items() if c != 0})
        if k == "bb":
            b, s_ = self.ev(e[2]), self.ev(e[3])
            notes = set()
            out = {}
            for name, c in b.members.items():
                r = arith("^" if e[1] == "**" else e[1], c, s_.value, notes)
                if r != 0:
                    out[name] = r
            if notes:
                raise Unspec(",".join(sorted(notes)))
            return Val("bun", members=out)
        if k == "bf":
            b, s_ = self.ev(e[2]), self.ev(e[3])
            out = {}
            for name, c in b.members.items():
                if compare(e[1], c, s_.value):
                    if e[4] == "copy":
                        out[name] = c
                    else:
                        cv = self.ev(e[4]).value
                        if cv != 0:
                            out[name] = cv
            return Val("bun", members=out)
        if k == "bg":
            c, b = self.ev(e[1]), self.ev(e[2])
            return Val("bun", members=dict(b.members) if c.value != 0 else {})
        if k == "bs":
            b = self.ev(e[1])
            return Val("sig", e[2], b.members.get(e[2], 0))
        if k in ("any", "all"):
            b, s_ = self.ev(e[2]), self.ev(e[3])
            vals = [c for c in b.members.values() if c != 0]
            if k == "any":
                val = 1 if any(compare(e[1], c, s_.value) for c in vals) else 0
            else:
                val = 1 if all(compare(e[1], c, s_.value) for c in vals) else 0
            return self.sigval(None, val, cmp=True)
        if k == "eo":
            ent = self.lookup(e[1])
            rec = next(x for x in self.entities if x["id"] == ent.ent)
            contents = self.chest.get((rec["proto"], rec["x"], rec["y"]), {})
            return Val("bun", members={s_: w32(c) for s_, c in contents.items() if w32(c) != 0})
        if k == "prop":
            raise Unspec("entity property read")
        raise ValueError("unknown expr %r" % (e,))

    def _cmp_left_type(self, c):
        if c[0] == "c":
            return self.ev(c[2])
        if c[0] in ("&&", "||"):
            return self._cmp_left_type(c[1])
        if c[0] == "v":
            return self.lookup(c[1])
        if c[0] in ("any", "all"):
            return None
        return None

    def rtype(self, t):
        if isinstance(t, (list, tuple)):
            return self.lookup(t[1]).type
        return t

    def arith(self, op, l, r):
        notes = set()
        v = arith("^" if op == "**" else op, l.value, r.value, notes)
        if notes:
            raise Unspec(",".join(sorted(notes)))
        kk = max(l.k, r.k) if (l.k and r.k) else 0
        if kk == 2 and op == "/" and "ir_floor_div" in self.defects and r.value != 0:
            v = w32(l.value // r.value)
        if l.kind == "int" and r.kind == "int":
            return Val("int", None, v, k=kk)
        src = l if l.kind == "sig" else r
        return Val("sig", src.type, v, implicit_id=src.implicit_id, k=kk)

    # ---- functions
    def call(self, fname, args):
        f = self.funcs[fname]
        _, _name, params, body, ret = f
        if self.depth > 20:
            raise Unspec("call depth")
        argv = [self.ev(a) for a in args]
        scope = {}
        for (pt, pn), av in zip(params, argv):
            if pt == "Signal" and av.kind == "int":
                # an integer bound to a Signal parameter becomes an anonymous constant signal: operations on it are
                # folded (if at all) by IR-level constant propagation, not by the AST folder
                av = self.sigval(None, av.value)
                av.k = 2
            scope[pn] = av
        saved = self.scopes
        self.scopes = [saved[0], scope]
        self.depth += 1
        try:
            for s in body:
                self.stmt(s)
            if ret is None:
                return Val("void")
            return self.ev(ret)
        finally:
            self.depth -= 1
            self.scopes = saved

    # ---- statements
    def uid(self, base):
        self._uid += 1
        return "%s#%d" % (base, self._uid)

    def stmt(self, s):
        k = s[0]
        if k == "input":
            _, name, t, v = s
            val = self.inputs.get(name, v) if len(self.scopes) == 1 else v
            self.define(name, self.sigval(t, val))
        elif k == "int":
            v = self.ev(s[2])
            self.define(s[1], Val("int", None, v.value, k=1))
        elif k == "sig":
            v = self.ev(s[2])
            if v.kind == "int":
                v = self.sigval(None, v.value)
            elif v.k:
                v = Val("sig", v.type, v.value, cmp=v.cmp, implicit_id=v.implicit_id)  # declared: not folded further
            self.define(s[1], v)
        elif k == "bun":
            self.define(s[1], self.ev(s[2]))
        elif k == "assign":
            v = self.ev(s[2])
            if v.kind == "int":
                v = self.sigval(None, v.value)
            self.define(s[1], v)
        elif k == "mem":
            mid = self.uid(s[1])
            self.mems[mid] = {"type": s[2], "name": s[1], "top": len(self.scopes) == 1}
            self.define(s[1], Val("mem", s[2], ent=mid))
        elif k == "write":
            m = self.lookup(s[1])
            data = self.ev(s[2])
            en = self.ev(s[3]) if s[3] is not None else None
            if m.type is None and data.kind == "sig":
                m.type = data.type
                self.mems[m.ent]["type"] = data.type
            self.writes.append((m.ent, "when", data, en, s))
        elif k == "latch":
            m = self.lookup(s[1])
            v, st, rs = self.ev(s[2]), self.ev(s[3]), self.ev(s[4])
            self.writes.append((m.ent, s[5], v, (st, rs), s))
        elif k == "place":
            _, name, proto, x, y, props = s
            xv, yv = self.ev(x), self.ev(y)
            eid = self.uid(name or "ent")
            fixed = xv.kind == "int" and yv.kind == "int"
            self.entities.append({"id": eid, "name": name, "proto": proto, "x": xv.value if fixed else None,
                                  "y": yv.value if fixed else None, "props": props or {}, "top": len(self.scopes) == 1})
            if name is not None:
                self.define(name, Val("ent", ent=eid))
        elif k == "ent":
            v = self.ev(s[2])
            self.define(s[1], v)
        elif k == "set":
            ent = self.lookup(s[1])
            v = self.ev(s[3])
            if s[2] == "enable":
                self.enables[ent.ent] = (v, s[3])
            else:
                self.propwrites.append((ent.ent, s[2], v))
        elif k == "func":
            self.funcs[s[1]] = s
        elif k == "for":
            _, it, rng_, body = s
            for val in loop_values(rng_, self):
                self.scopes.append({it: Val("int", None, val, k=1)})
                try:
                    for b in body:
                        self.stmt(b)
                finally:
                    self.scopes.pop()
        elif k == "import":
            path = s[1]
            key = id(self.files[path]) if path in self.files else path   # two spellings of one file
            if key in self._imported:
                return
            self._imported.add(key)
            for b in self.files.get(path, []):
                self.stmt(b)
        elif k == "expr":
            self.ev(s[1])
        elif k == "raw":
            raise Unspec("raw statement")
        else:
            raise ValueError("unknown stmt %r" % (s,))

    def run(self):
        for s in self.prog:
            self.stmt(s)
        return self


def loop_values(rng_, interp=None):
    """The documented iteration sequence (C16)."""
    if rng_[0] == "list":
        return list(rng_[1])

    def res(x):
        if isinstance(x, int):
            return x
        return interp.lookup(x).value

    a, b = res(rng_[1]), res(rng_[2])
    st = res(rng_[3]) if rng_[3] is not None else None
    if st is None:
        st = 1 if a < b else -1
    out = []
    if st > 0:
        i = a
        while i < b:
            out.append(i)
            i += st
    elif st < 0:
        i = a
        while i > b:
            out.append(i)
            i += st
    return out


# ---------------------------------------------------------------- helpers over descriptions

def walk_expr(e, fn):
    """Pre-order visit of every sub-expression."""
    fn(e)
    for x in e[1:]:
        if isinstance(x, list) and x and isinstance(x[0], str) and x[0] in _EXPR_KINDS:
            walk_expr(x, fn)
        elif isinstance(x, list):
            for y in x:
                if isinstance(y, list) and y and isinstance(y[0], str) and y[0] in _EXPR_KINDS:
                    walk_expr(y, fn)


_EXPR_KINDS = {"n", "v", "t", "b", "c", "&&", "||", "!", "neg", "p", "s", "r", "call", "prop",
               "B", "bb", "bf", "bg", "bs", "any", "all", "eo", "raw"}


def shape_of(prog) -> str:
    """Program shape with constants and names erased (distinct_nontrivial key)."""
    import hashlib
    import json

    names: dict = {}

    def nm(x):
        if x not in names:
            names[x] = "n%d" % len(names)
        return names[x]

    def sh(e):
        if isinstance(e, list):
            if e and isinstance(e[0], str):
                k = e[0]
                if k == "n":
                    return ["n"]
                if k == "v":
                    return ["v", nm(e[1])]
                if k in ("input",):
                    return [k, nm(e[1]), "T" if e[2] else None]
                return [k] + [sh(x) for x in e[1:]]
            return [sh(x) for x in e]
        if isinstance(e, str):
            if e in ARITH_OPS or e in CMP_OPS or e in ("copy", "sr", "rs", "range", "list", "enable"):
                return e
            return "$"
        if isinstance(e, int) and not isinstance(e, bool):
            return 0
        if isinstance(e, dict):
            return {k: sh(v) for k, v in e.items()}
        return e

    return hashlib.sha1(json.dumps(sh(prog), sort_keys=True).encode()).hexdigest()[:16]
