"""Helpers for history-driven (stateful) executions: held steps and per-tick traces."""
from __future__ import annotations

from . import driver


def apply_step(sim, ex, changes):
    return driver.set_inputs(sim, ex.view, changes, ex.types)


def read_all(sim, ex):
    out = {}
    for name, lst in ex.view.anchors.items():
        if len(lst) != 1:
            out[name] = {"dup": len(lst)}
            continue
        n, rep = lst[0]
        out[name] = {"signals": dict(sim.signals_at(n)), "reported": rep}
    return out


def held_history(ex, which, steps, extra=4, mixed="and_precedence"):
    """Apply each step (dict of input changes), hold until settled, hold `extra` more
    ticks and require stability.  Returns list of per-step records."""
    sim = ex.sim(which, mixed)
    bound = 2 * len(sim._comb) + 10
    recs = []
    for st in steps:
        missing = apply_step(sim, ex, st)
        t = sim.settle(bound)
        stable = t is not None
        first = read_all(sim, ex)
        if stable:
            for _ in range(extra):
                if sim.step():
                    stable = False
        last = read_all(sim, ex)
        if stable and first != last:
            stable = False
        recs.append({"settle": t, "stable": stable, "obs": last, "missing": missing, "sim": None})
    return recs, sim


def trace(ex, which, inputs, ticks, mixed="and_precedence"):
    """Per-tick anchor observations from the all-zero state with constant inputs."""
    sim = ex.sim(which, mixed)
    missing = apply_step(sim, ex, inputs)
    rows = []
    for _ in range(ticks):
        rows.append(read_all(sim, ex))
        sim.step()
    return rows, missing, sim


def value_of(obs_entry, sig_type):
    """Own-signal value from an anchor observation."""
    if obs_entry is None or "signals" not in obs_entry:
        return None
    key = sig_type or obs_entry.get("reported")
    if key is None:
        s = obs_entry["signals"]
        if not s:
            return 0
        if len(s) == 1:
            return next(iter(s.values()))
        return None
    return obs_entry["signals"].get(key, 0)
