"""Long-lived worker processes with a per-case watchdog (DESIGN.md 2.6).

Protocol: the parent writes one JSON line per case to a worker's stdin and reads
one JSON line back.  A worker that dies or exceeds the watchdog is killed and
restarted; its case is reported as {"verdict": "inconclusive", "why": ...} -
wall-clock is never a verdict.
"""
from __future__ import annotations

import json
import os
import queue
import subprocess
import sys
import threading
import time

HERE = os.path.dirname(os.path.dirname(os.path.abspath(__file__)))
PY = os.environ.get("FVERIF_PYTHON", "/venv/bin/python")


def _env(extra=None):
    env = dict(os.environ)
    env["PYTHONDONTWRITEBYTECODE"] = "1"
    env.setdefault("PYTHONHASHSEED", "0")
    env["FACTO_VERIF"] = "1"
    pp = [HERE]
    deps = os.path.join(HERE, ".deps")
    if os.path.isdir(deps):
        pp.append(deps)
    if env.get("PYTHONPATH"):
        pp.append(env["PYTHONPATH"])
    env["PYTHONPATH"] = os.pathsep.join(pp)
    if extra:
        env.update(extra)
    return env


class _Worker:
    def __init__(self, module, env_extra=None):
        self.module = module
        self.env_extra = env_extra
        self.proc = None
        self.start()

    def start(self):
        self.proc = subprocess.Popen(
            [PY, "-X", "faulthandler", "-m", "fverif.worker", self.module],
            stdin=subprocess.PIPE, stdout=subprocess.PIPE, stderr=subprocess.PIPE,
            cwd=HERE, env=_env(self.env_extra), text=True, bufsize=1)
        self._err = []
        t = threading.Thread(target=self._drain, daemon=True)
        t.start()

    def _drain(self):
        p = self.proc
        try:
            for line in p.stderr:
                self._err.append(line)
                if len(self._err) > 200:
                    del self._err[:100]
        except Exception:
            pass

    def kill(self):
        try:
            self.proc.kill()
            self.proc.wait(timeout=10)
        except Exception:
            pass

    def run(self, case, timeout):
        """Returns result dict."""
        p = self.proc
        try:
            p.stdin.write(json.dumps(case) + "\n")
            p.stdin.flush()
        except Exception as ex:
            self.kill()
            self.start()
            return {"verdict": "inconclusive", "why": "worker write failed: %r" % (ex,)}
        result = {}

        def rd():
            try:
                while True:
                    line = p.stdout.readline()
                    if not line:
                        result["eof"] = True
                        return
                    if line.startswith("@@R "):
                        result["line"] = line[4:]
                        return
            except Exception as ex:  # noqa: BLE001
                result["exc"] = repr(ex)

        t = threading.Thread(target=rd, daemon=True)
        t.start()
        t.join(timeout)
        if t.is_alive():
            self.kill()
            tail = "".join(self._err[-30:])
            self.start()
            return {"verdict": "inconclusive", "why": "watchdog %ss" % timeout, "stderr": tail[-1500:]}
        if "line" in result:
            try:
                return json.loads(result["line"])
            except Exception as ex:  # noqa: BLE001
                return {"verdict": "inconclusive", "why": "bad worker reply %r" % (ex,)}
        tail = "".join(self._err[-30:])
        self.kill()
        self.start()
        return {"verdict": "inconclusive", "why": "worker died", "stderr": tail[-1500:]}

    def close(self):
        try:
            self.proc.stdin.close()
        except Exception:
            pass
        try:
            self.proc.wait(timeout=5)
        except Exception:
            self.kill()


def run_cases(module, cases, nworkers=None, timeout=120, env_extra=None, progress=None, deadline=None):
    """Run cases through worker processes.  Yields (case, result) in completion order."""
    if nworkers is None:
        nworkers = min(16, os.cpu_count() or 4)
    nworkers = max(1, min(nworkers, len(cases)))
    q: queue.Queue = queue.Queue()
    for i, c in enumerate(cases):
        q.put((i, c))
    out: queue.Queue = queue.Queue()
    stop = threading.Event()

    def loop():
        w = _Worker(module, env_extra)
        try:
            while not stop.is_set():
                try:
                    i, c = q.get_nowait()
                except queue.Empty:
                    break
                if deadline is not None and time.time() > deadline:
                    out.put((i, c, {"verdict": "skipped", "why": "run deadline"}))
                    continue
                r = w.run(c, timeout)
                out.put((i, c, r))
        finally:
            w.close()

    threads = [threading.Thread(target=loop, daemon=True) for _ in range(nworkers)]
    for t in threads:
        t.start()
    done = 0
    total = len(cases)
    results = [None] * total
    while done < total:
        i, c, r = out.get()
        results[i] = (c, r)
        done += 1
        if progress and done % progress == 0:
            print("  .. %d/%d" % (done, total), file=sys.stderr, flush=True)
    stop.set()
    for t in threads:
        t.join(timeout=10)
    return results
