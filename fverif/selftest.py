"""Model self-tests: hand-computed micro-circuits for fsim (run by ./check --setup).

A failing self-test makes setup fail: the trusted base must agree with the hand
computation before any verdict is believed."""
from __future__ import annotations

import sys

from .fsim import INT_MAX, INT_MIN, Sim, arith, w32


def V(n):
    return {"type": "virtual", "name": n}


def const(n, sigs):
    return {"entity_number": n, "name": "constant-combinator", "position": {"x": n, "y": 0},
            "control_behavior": {"sections": {"sections": [{"index": 1, "filters": [
                {"index": i + 1, "name": k, "count": v, "comparator": "=", "quality": "normal"}
                for i, (k, v) in enumerate(sigs.items())]}]}}}


def ar(n, **ac):
    return {"entity_number": n, "name": "arithmetic-combinator", "position": {"x": n, "y": 2},
            "control_behavior": {"arithmetic_conditions": ac}}


def dec(n, conds, outs):
    return {"entity_number": n, "name": "decider-combinator", "position": {"x": n, "y": 2},
            "control_behavior": {"decider_conditions": {"conditions": conds, "outputs": outs}}}


def bp(ents, wires):
    return {"blueprint": {"entities": ents, "wires": wires}}


def out_of(sim, n, ticks=3):
    sim.run(ticks)
    return sim.out[n]


TESTS = []


def t(f):
    TESTS.append(f)
    return f


@t
def arith_ops():
    assert arith("+", INT_MAX, 1) == INT_MIN
    assert arith("-", INT_MIN, 1) == INT_MAX
    assert arith("*", 65536, 65536) == 0
    assert arith("*", 46341, 46341) == w32(46341 * 46341) == -2147479015
    assert arith("/", -7, 2) == -3 and arith("/", 7, -2) == -3 and arith("/", -7, -2) == 3
    assert arith("%", -7, 2) == -1 and arith("%", 7, -2) == 1 and arith("%", -7, -2) == -1
    assert arith("/", 5, 0) == 0 and arith("%", 5, 0) == 0
    assert arith("^", 2, 31) == INT_MIN and arith("^", 2, 32) == 0 and arith("^", -3, 3) == -27
    assert arith("^", 7, 0) == 1 and arith("^", 0, 0) == 1
    assert arith("<<", 1, 31) == INT_MIN and arith(">>", -8, 1) == -4 and arith(">>", INT_MIN, 31) == -1
    assert arith("AND", -1, 255) == 255 and arith("OR", INT_MIN, 1) == INT_MIN + 1 and arith("XOR", -1, 1) == -2


@t
def arith_default_op_is_multiply():
    b = bp([const(1, {"signal-A": 6}), ar(2, first_signal=V("signal-A"), second_constant=7, output_signal=V("signal-B"))],
           [[1, 1, 2, 1]])
    assert out_of(Sim(b), 2) == {"signal-B": 42}


@t
def latency_one_tick_per_combinator():
    b = bp([const(1, {"signal-A": 1}),
            ar(2, first_signal=V("signal-A"), operation="+", second_constant=1, output_signal=V("signal-A")),
            ar(3, first_signal=V("signal-A"), operation="+", second_constant=1, output_signal=V("signal-A"))],
           [[1, 1, 2, 1], [2, 3, 3, 1]])
    s = Sim(b)
    s.step()
    assert s.out[2] == {"signal-A": 2} and s.out[3] == {"signal-A": 1}
    s.step()
    assert s.out[3] == {"signal-A": 3}


@t
def red_green_sum_and_selection():
    b = bp([const(1, {"signal-A": 5}), const(2, {"signal-A": 7}),
            ar(3, first_signal=V("signal-A"), operation="+", second_constant=0, output_signal=V("signal-X")),
            ar(4, first_signal=V("signal-A"), first_signal_networks={"green": False}, operation="-",
               second_signal=V("signal-A"), second_signal_networks={"red": False}, output_signal=V("signal-Y"))],
           [[1, 1, 3, 1], [2, 2, 3, 2], [1, 1, 4, 1], [2, 2, 4, 2]])
    s = Sim(b)
    s.run(2)
    assert s.out[3] == {"signal-X": 12}
    assert s.out[4] == {"signal-Y": -2}


@t
def each_arithmetic_and_scalar_on_other_colour():
    b = bp([const(1, {"signal-A": 5, "iron-plate": -3, "signal-S": 2}), const(2, {"signal-S": 10}),
            ar(3, first_signal=V("signal-each"), first_signal_networks={"green": False}, operation="*",
               second_signal=V("signal-S"), second_signal_networks={"red": False}, output_signal=V("signal-each"))],
           [[1, 1, 3, 1], [2, 2, 3, 2]])
    assert out_of(Sim(b), 3) == {"signal-A": 50, "iron-plate": -30, "signal-S": 20}


@t
def each_to_named_output_sums():
    b = bp([const(1, {"signal-A": 5, "iron-plate": -3}),
            ar(2, first_signal=V("signal-each"), operation="+", second_constant=1, output_signal=V("signal-T"))],
           [[1, 1, 2, 1]])
    assert out_of(Sim(b), 2) == {"signal-T": 4}


@t
def decider_default_comparator_is_less_than():
    b = bp([const(1, {"signal-A": 5}),
            dec(2, [{"first_signal": V("signal-A"), "constant": 10}], [{"signal": V("signal-B"), "copy_count_from_input": False}])],
           [[1, 1, 2, 1]])
    assert out_of(Sim(b), 2) == {"signal-B": 1}


@t
def decider_copy_count_is_default_and_reads_selected_networks():
    b = bp([const(1, {"signal-A": 5}), const(2, {"signal-A": 100}),
            dec(3, [{"first_signal": V("signal-A"), "first_signal_networks": {"green": False}, "comparator": ">", "constant": 0}],
                [{"signal": V("signal-A"), "networks": {"red": False}}])],
           [[1, 1, 3, 1], [2, 2, 3, 2]])
    assert out_of(Sim(b), 3) == {"signal-A": 100}


@t
def decider_everything_anything_empty():
    e = dec(2, [{"first_signal": V("signal-everything"), "comparator": ">", "constant": 0}],
            [{"signal": V("signal-B"), "copy_count_from_input": False}])
    a = dec(3, [{"first_signal": V("signal-anything"), "comparator": ">", "constant": 0}],
            [{"signal": V("signal-B"), "copy_count_from_input": False}])
    s = Sim(bp([const(1, {}), e, a], [[1, 1, 2, 1], [1, 1, 3, 1]]))
    s.run(2)
    assert s.out[2] == {"signal-B": 1} and s.out[3] == {}
    s = Sim(bp([const(1, {"signal-A": 3, "signal-C": -1}), e, a], [[1, 1, 2, 1], [1, 1, 3, 1]]))
    s.run(2)
    assert s.out[2] == {} and s.out[3] == {"signal-B": 1}


@t
def decider_each_filter_copy_and_constant():
    f = dec(2, [{"first_signal": V("signal-each"), "comparator": ">", "constant": 4}], [{"signal": V("signal-each")}])
    g = dec(3, [{"first_signal": V("signal-each"), "comparator": ">", "constant": 4}],
            [{"signal": V("signal-each"), "copy_count_from_input": False, "constant": 9}])
    s = Sim(bp([const(1, {"signal-A": 5, "signal-B": 4, "coal": 100}), f, g], [[1, 1, 2, 1], [1, 1, 3, 1]]))
    s.run(2)
    assert s.out[2] == {"signal-A": 5, "coal": 100} and s.out[3] == {"signal-A": 9, "coal": 9}


@t
def decider_everything_output_gates_whole_input():
    g = dec(2, [{"first_signal": V("signal-S"), "first_signal_networks": {"green": False}, "comparator": ">", "constant": 0}],
            [{"signal": V("signal-everything"), "networks": {"red": False}}])
    s = Sim(bp([const(1, {"signal-S": 1}), const(3, {"signal-A": 5, "coal": -2}), g], [[1, 1, 2, 1], [3, 2, 2, 2]]))
    s.run(2)
    assert s.out[2] == {"signal-A": 5, "coal": -2}
    s.set_constant(1, {})
    s.run(2)
    assert s.out[2] == {}


@t
def decider_and_binds_tighter_than_or():
    rows = [{"first_signal": V("signal-A"), "comparator": ">", "constant": 0},
            {"first_signal": V("signal-B"), "comparator": ">", "constant": 0, "compare_type": "or"},
            {"first_signal": V("signal-C"), "comparator": ">", "constant": 0, "compare_type": "and"}]
    d = dec(2, rows, [{"signal": V("signal-X"), "copy_count_from_input": False}])
    s = Sim(bp([const(1, {"signal-A": 1}), d], [[1, 1, 2, 1]]))
    assert out_of(s, 2) == {"signal-X": 1}          # A or (B and C)
    s2 = Sim(bp([const(1, {"signal-A": 1}), d], [[1, 1, 2, 1]]), mixed_rows="left_to_right")
    assert out_of(s2, 2) == {}                       # (A or B) and C


@t
def memory_cell_gated_pair_holds():
    w = dec(2, [{"first_signal": V("signal-W"), "comparator": ">", "constant": 0}], [{"signal": V("signal-A")}])
    h = dec(3, [{"first_signal": V("signal-W"), "comparator": "=", "constant": 0}], [{"signal": V("signal-A")}])
    b = bp([const(1, {"signal-A": 42}), const(4, {"signal-W": 1}), w, h],
           [[1, 1, 2, 1], [4, 2, 2, 2], [2, 2, 3, 2], [2, 3, 3, 1], [3, 3, 3, 1]])
    s = Sim(b)
    s.run(4)
    assert s.signals_at(3, (1,)).get("signal-A") == 42
    s.set_constant(4, {})
    s.set_constant(1, {"signal-A": 7})
    s.run(6)
    assert s.signals_at(3, (1,)).get("signal-A") == 42


@t
def circuit_condition_on_lamp():
    lamp = {"entity_number": 2, "name": "small-lamp", "position": {"x": 0.5, "y": 0.5},
            "control_behavior": {"circuit_enabled": True, "circuit_condition": {"first_signal": V("signal-A"), "comparator": ">", "constant": 3}}}
    s = Sim(bp([const(1, {"signal-A": 4}), lamp], [[1, 1, 2, 1]]))
    assert s.circuit_condition(2) == (True, True)
    s.set_constant(1, {"signal-A": 3})
    assert s.circuit_condition(2) == (True, False)


@t
def poles_are_transparent_and_copper_ignored():
    pole = {"entity_number": 3, "name": "medium-electric-pole", "position": {"x": 5.5, "y": 0.5}}
    b = bp([const(1, {"signal-A": 4}), ar(2, first_signal=V("signal-A"), operation="+", second_constant=0, output_signal=V("signal-B")), pole],
           [[1, 1, 3, 1], [3, 1, 2, 1], [3, 5, 3, 5]])
    assert out_of(Sim(b), 2) == {"signal-B": 4}


def main():
    failed = 0
    for f in TESTS:
        try:
            f()
        except Exception as ex:  # noqa: BLE001
            failed += 1
            print("SELFTEST FAILED %s: %r" % (f.__name__, ex))
    print("selftest: %d/%d model self-tests passed" % (len(TESTS) - failed, len(TESTS)))
    try:
        import icontract  # noqa: F401

        print("icontract available")
    except Exception as ex:  # noqa: BLE001
        print("icontract not importable (%r): contracts fall back to plain wrappers" % (ex,))
    return 1 if failed else 0


if __name__ == "__main__":
    sys.exit(main())
