"""Geometric / structural validity of an emitted blueprint (C08, C18): collision boxes, wire
endpoints, connectors, colours, wire reach, copper grid, supply coverage."""
from __future__ import annotations

import math

from . import protos, wiring

EPS = 1e-6


def _bp(bp):
    return bp["blueprint"] if "blueprint" in bp else bp


def boxes(bp):
    out = {}
    for e in _bp(bp).get("entities", []):
        (x0, y0), (x1, y1) = protos.collision_box(e["name"], e.get("direction", 0) or 0)
        px, py = e["position"]["x"], e["position"]["y"]
        out[e["entity_number"]] = (px + x0, py + y0, px + x1, py + y1)
    return out


def overlaps(bp):
    bx = boxes(bp)
    ents = {e["entity_number"]: e for e in _bp(bp).get("entities", [])}
    items = sorted(bx.items(), key=lambda kv: kv[1][0])
    out = []
    for i, (n, a) in enumerate(items):
        for m, b in items[i + 1:]:
            if b[0] >= a[2] - EPS:
                break
            if min(a[2], b[2]) - max(a[0], b[0]) > EPS and min(a[3], b[3]) - max(a[1], b[1]) > EPS:
                out.append({"what": "overlap", "a": [n, ents[n]["name"], ents[n]["position"]],
                            "b": [m, ents[m]["name"], ents[m]["position"]]})
    return out


def wire_problems(bp, cap=None):
    b = _bp(bp)
    ents = {e["entity_number"]: e for e in b.get("entities", [])}
    out = []
    pres = set()
    if cap:
        num = {i: n + 1 for n, i in enumerate(cap.get("ids", []))}
        for s_, t, col, ss, ts in cap.get("preserved", []):
            if s_ in num and t in num:
                pres.add(frozenset((num[s_], num[t])))
    seen = set()
    for w in b.get("wires", []) or []:
        if len(w) != 4:
            out.append({"what": "malformed wire", "wire": w})
            continue
        e1, c1, e2, c2 = w
        if e1 not in ents or e2 not in ents:
            out.append({"what": "wire endpoint is not an entity", "wire": w})
            continue
        n1, n2 = ents[e1]["name"], ents[e2]["name"]
        if c1 not in protos.connectors(n1) or c2 not in protos.connectors(n2):
            out.append({"what": "connector the prototype does not have", "wire": w, "names": [n1, n2]})
            continue
        copper = c1 >= 5 or c2 >= 5
        if copper:
            if not (c1 >= 5 and c2 >= 5):
                out.append({"what": "copper connector wired to a circuit connector", "wire": w})
                continue
        else:
            col1 = "red" if c1 in (1, 3) else "green"
            col2 = "red" if c2 in (1, 3) else "green"
            if col1 != col2:
                out.append({"what": "wire colour differs between its ends", "wire": w})
                continue
        if e1 == e2:
            continue
        p1, p2 = ents[e1]["position"], ents[e2]["position"]
        d = math.hypot(p1["x"] - p2["x"], p1["y"] - p2["y"])
        if copper:
            reach = min(protos.copper_reach(n1), protos.copper_reach(n2))
        else:
            reach = min(protos.wire_reach(n1), protos.wire_reach(n2))
        if d > reach + EPS:
            out.append({"what": "copper wire longer than reach" if copper else "circuit wire longer than reach",
                        "wire": w, "names": [n1, n2], "length": round(d, 3), "reach": reach,
                        "explicit_module_wire": frozenset((e1, e2)) in pres})
    return out


def relay_problems(bp, cap):
    out = []
    if not cap:
        return out
    for rid, red, green in cap.get("relay_nets", []):
        if len(red) > 1 or len(green) > 1:
            out.append({"what": "relay carries more than one network on a colour", "relay": rid, "red": red, "green": green})
    phys = wiring.physical_partition(bp)
    plan = wiring.planned_partition(bp, cap)
    if phys != plan:
        out.append(dict({"what": "emitted wiring joins/splits networks differently from the planned edges"},
                        **wiring.partition_diff(phys, plan)))
    return out


def check_pasteable(bp, cap=None):
    probs = overlaps(bp)[:5] + wire_problems(bp, cap)[:8]
    if cap:
        probs += relay_problems(bp, cap)[:4]
    return probs


# ------------------------------------------------------------------ power (C18)

def power_problems(bp, pole_type):
    b = _bp(bp)
    ents = b.get("entities", [])
    pname = protos.POLE_TYPES[pole_type]
    poles = [e for e in ents if e["name"] == pname]
    out = []
    sd = protos.supply_distance(pname)
    bx = boxes(bp)
    for e in ents:
        if not protos.is_electric_consumer(e["name"]):
            continue
        x0, y0, x1, y1 = bx[e["entity_number"]]
        ok = False
        for p in poles:
            px, py = p["position"]["x"], p["position"]["y"]
            # supply area: square of half-width sd around the pole centre
            if min(x1, px + sd) - max(x0, px - sd) > EPS and min(y1, py + sd) - max(y0, py - sd) > EPS:
                ok = True
                break
        if not ok:
            out.append({"what": "electric entity outside every supply area", "entity": [e["entity_number"], e["name"], e["position"]]})
    # one copper component over ALL electric poles
    allpoles = [e for e in ents if protos.is_pole(e["name"])]
    if allpoles:
        uf = wiring.UF()
        for p in allpoles:
            uf.find(p["entity_number"])
        for w in b.get("wires", []) or []:
            if w[1] == 5 and w[3] == 5:
                uf.union(w[0], w[2])
        comps = uf.classes()
        if len(comps) > 1:
            out.append({"what": "poles form %d electric networks" % len(comps), "sizes": sorted(len(c) for c in comps)})
    return out
