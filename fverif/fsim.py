"""Executable model of Factorio 2.0 circuit networks over a decoded blueprint dict.

Trusted base of every behavioural check (DESIGN.md 2.1).  The blueprint is
parsed independently of draftsman: every default that the Factorio 2.0 export
omits is spelled out here (arithmetic operation "*", decider comparator "<",
copy_count_from_input true, output constant 1, both networks selected,
operand constants 0).

Two executions are offered:

* ``Sim``        - physical: a circuit network is a connected component of
                   (entity, connector) nodes under the emitted wires.
* ``LogicalSim`` - directed delivery (DESIGN.md 2.8.1): explicit module wires
                   are closed into classes; every routed edge recorded by the
                   plan monitor delivers the emitters of the source's class to
                   the sink's input on that colour.
"""
from __future__ import annotations

from collections import defaultdict

M32 = 0xFFFFFFFF
INT_MIN = -(1 << 31)
INT_MAX = (1 << 31) - 1

WILD = ("signal-each", "signal-anything", "signal-everything")
COMBINATORS = ("arithmetic-combinator", "decider-combinator")
NO_ENABLE_FLAG = ("pump", "offshore-pump", "power-switch")


def w32(x: int) -> int:
    x &= M32
    return x - (1 << 32) if x & 0x80000000 else x


class Unspecified(Exception):
    """Raised (or recorded) when the model is asked for behaviour it does not fix."""


def arith(op: str, a: int, b: int, notes: set | None = None) -> int:
    """Arithmetic combinator operation on int32 values."""
    if op == "+":
        return w32(a + b)
    if op == "-":
        return w32(a - b)
    if op == "*":
        return w32(a * b)
    if op == "/":
        if b == 0:
            return 0
        if a == INT_MIN and b == -1:
            if notes is not None:
                notes.add("INT_MIN/-1")
            return INT_MIN
        q = abs(a) // abs(b)
        return w32(q if (a < 0) == (b < 0) else -q)
    if op == "%":
        if b == 0:
            return 0
        if a == INT_MIN and b == -1:
            if notes is not None:
                notes.add("INT_MIN%-1")
            return 0
        r = abs(a) % abs(b)
        return w32(r if a >= 0 else -r)
    if op in ("^", "**"):
        if b < 0:
            if notes is not None:
                notes.add("negative exponent")
            return 0
        return w32(pow(a, b, 1 << 32))
    if op == "<<":
        if not 0 <= b <= 31:
            if notes is not None:
                notes.add("shift amount outside 0..31")
        return w32(a << (b & 31))
    if op == ">>":
        if not 0 <= b <= 31:
            if notes is not None:
                notes.add("shift amount outside 0..31")
        return w32(a >> (b & 31))
    if op == "AND":
        return w32(a & b)
    if op == "OR":
        return w32(a | b)
    if op == "XOR":
        return w32(a ^ b)
    raise ValueError("unknown arithmetic operation %r" % (op,))


_CMP = {
    "<": lambda a, b: a < b,
    ">": lambda a, b: a > b,
    "=": lambda a, b: a == b,
    "==": lambda a, b: a == b,
    "≤": lambda a, b: a <= b,
    "<=": lambda a, b: a <= b,
    "≥": lambda a, b: a >= b,
    ">=": lambda a, b: a >= b,
    "≠": lambda a, b: a != b,
    "!=": lambda a, b: a != b,
}


def compare(op: str, a: int, b: int) -> bool:
    return _CMP[op](a, b)


def _signame(s):
    if s is None:
        return None
    if isinstance(s, str):
        return s
    return s.get("name")


class Sim:
    """Physical execution of a blueprint."""

    def __init__(self, bp: dict, mixed_rows: str = "and_precedence"):
        if "blueprint" in bp:
            bp = bp["blueprint"]
        self.bp = bp
        self.mixed_rows = mixed_rows
        self.ents = {e["entity_number"]: e for e in bp.get("entities", [])}
        self.notes: set[str] = set()
        self.parent: dict = {}
        for w in bp.get("wires", []) or []:
            e1, c1, e2, c2 = w
            if c1 >= 5 or c2 >= 5:
                continue
            self._union((e1, c1), (e2, c2))
        self.out: dict[int, dict] = {}
        self.overrides: dict[int, dict] = {}
        self.tick_no = 0
        self._comb = [n for n, e in self.ents.items() if e["name"] in COMBINATORS]
        self._emit_nodes = []
        for n, e in self.ents.items():
            self.out[n] = self._static_out(e)
            conns = (3, 4) if e["name"] in COMBINATORS else (1, 2)
            self._emit_nodes.append((n, tuple(c for c in conns if (n, c) in self.parent)))
        self._has_mixed = {}

    # ---- union find -------------------------------------------------
    def _find(self, x):
        p = self.parent
        p.setdefault(x, x)
        root = x
        while p[root] != root:
            root = p[root]
        while p[x] != root:
            p[x], x = root, p[x]
        return root

    def _union(self, a, b):
        ra, rb = self._find(a), self._find(b)
        if ra != rb:
            self.parent[ra] = rb

    def connector_partition(self):
        """Partition of wired connectors into networks: list of frozensets."""
        groups = defaultdict(set)
        for x in list(self.parent):
            groups[self._find(x)].add(x)
        return [frozenset(g) for g in groups.values()]

    # ---- emitters ---------------------------------------------------
    def _static_out(self, e):
        if e["name"] == "constant-combinator":
            cb = e.get("control_behavior", {}) or {}
            if cb.get("is_on", True) is False:
                return {}
            d: dict = defaultdict(int)
            for sec in (cb.get("sections", {}) or {}).get("sections", []) or []:
                if sec.get("active", True) is False:
                    continue
                for f in sec.get("filters", []) or []:
                    if "name" not in f:
                        continue
                    d[f["name"]] = w32(d[f["name"]] + f.get("count", 0))
            return {k: v for k, v in d.items() if v != 0}
        return {}

    def emitted(self, n):
        return self.overrides.get(n, self.out[n])

    def set_constant(self, n, signals: dict):
        """Override what entity n emits (inputs, chest contents)."""
        self.overrides[n] = {k: w32(v) for k, v in signals.items() if w32(v) != 0}

    def networks(self):
        nets: dict = defaultdict(lambda: defaultdict(int))
        for n, conns in self._emit_nodes:
            o = self.overrides.get(n)
            if o is None:
                o = self.out[n]
            if not o:
                continue
            for c in conns:
                r = self._find((n, c))
                d = nets[r]
                for s, v in o.items():
                    d[s] = w32(d[s] + v)
        return nets

    def read(self, nets, n, conns=(1, 2)):
        per = {}
        for c in conns:
            if (n, c) in self.parent:
                per[c] = nets.get(self._find((n, c)), {})
            else:
                per[c] = {}
        return per

    @staticmethod
    def _sel(per, sel):
        red = True if sel is None else sel.get("red", True)
        green = True if sel is None else sel.get("green", True)
        d: dict = defaultdict(int)
        if red:
            for s, v in per[1].items():
                d[s] = w32(d[s] + v)
        if green:
            for s, v in per[2].items():
                d[s] = w32(d[s] + v)
        return {s: v for s, v in d.items() if v != 0}

    # ---- combinators ------------------------------------------------
    def _arith(self, e, per):
        ac = (e.get("control_behavior", {}) or {}).get("arithmetic_conditions", {}) or {}
        op = ac.get("operation", "*")
        fs = _signame(ac.get("first_signal"))
        ss = _signame(ac.get("second_signal"))
        outs = _signame(ac.get("output_signal"))
        if outs is None:
            return {}
        fin = self._sel(per, ac.get("first_signal_networks"))
        sin = self._sel(per, ac.get("second_signal_networks"))
        res: dict = defaultdict(int)
        notes = self.notes
        if fs == "signal-each":
            b = sin.get(ss, 0) if ss else ac.get("second_constant", 0)
            for s, v in fin.items():
                r = arith(op, v, b, notes)
                k = s if outs == "signal-each" else outs
                res[k] = w32(res[k] + r)
        elif ss == "signal-each":
            a = fin.get(fs, 0) if fs else ac.get("first_constant", 0)
            for s, v in sin.items():
                r = arith(op, a, v, notes)
                k = s if outs == "signal-each" else outs
                res[k] = w32(res[k] + r)
        else:
            if outs == "signal-each":
                return {}
            a = fin.get(fs, 0) if fs else ac.get("first_constant", 0)
            b = sin.get(ss, 0) if ss else ac.get("second_constant", 0)
            res[outs] = arith(op, a, b, notes)
        return {s: v for s, v in res.items() if v != 0}

    def _cond(self, c, per, each_sig=None):
        fs = _signame(c.get("first_signal"))
        ss = _signame(c.get("second_signal"))
        op = c.get("comparator", "<")
        fin = self._sel(per, c.get("first_signal_networks"))
        if ss:
            sin = self._sel(per, c.get("second_signal_networks"))
            b = sin.get(each_sig if ss == "signal-each" else ss, 0)
        else:
            b = c.get("constant", 0)
        if fs is None:
            return False
        if fs == "signal-each":
            return compare(op, fin.get(each_sig, 0), b)
        if fs == "signal-everything":
            return all(compare(op, v, b) for v in fin.values())
        if fs == "signal-anything":
            return any(compare(op, v, b) for v in fin.values())
        return compare(op, fin.get(fs, 0), b)

    def _rows(self, conds, per, each_sig=None):
        if not conds:
            return False
        types = [c.get("compare_type", "or") for c in conds[1:]]
        if self.mixed_rows == "left_to_right":
            acc = self._cond(conds[0], per, each_sig)
            for c, t in zip(conds[1:], types):
                v = self._cond(c, per, each_sig)
                acc = (acc and v) if t == "and" else (acc or v)
            return acc
        groups, cur = [], [conds[0]]
        for c, t in zip(conds[1:], types):
            if t == "and":
                cur.append(c)
            else:
                groups.append(cur)
                cur = [c]
        groups.append(cur)
        return any(all(self._cond(c, per, each_sig) for c in g) for g in groups)

    @staticmethod
    def has_mixed_rows(e):
        dc = (e.get("control_behavior", {}) or {}).get("decider_conditions", {}) or {}
        ts = {c.get("compare_type", "or") for c in (dc.get("conditions") or [])[1:]}
        return len(ts) > 1

    def _decider(self, e, per):
        dc = (e.get("control_behavior", {}) or {}).get("decider_conditions", {}) or {}
        conds = dc.get("conditions", []) or []
        outs = dc.get("outputs", []) or []
        res: dict = defaultdict(int)

        def uses_each(c):
            return "signal-each" in (_signame(c.get("first_signal")), _signame(c.get("second_signal")))

        each_conds = [c for c in conds if uses_each(c)]

        def emit(o, each_sig=None):
            name = _signame(o.get("signal"))
            if not name:
                return
            copy = o.get("copy_count_from_input", True)
            const = o.get("constant", 1)
            src = self._sel(per, o.get("networks"))
            if name == "signal-each":
                if each_sig is None:
                    return
                v = src.get(each_sig, 0) if copy else const
                res[each_sig] = w32(res[each_sig] + v)
            elif name == "signal-everything":
                if each_sig is not None:
                    self.notes.add("everything output with each condition")
                for s, v in src.items():
                    res[s] = w32(res[s] + (v if copy else const))
            elif name == "signal-anything":
                self.notes.add("anything as output signal")
            else:
                if each_sig is not None:
                    v = src.get(each_sig, 0) if copy else const
                else:
                    v = src.get(name, 0) if copy else const
                res[name] = w32(res[name] + v)

        if each_conds:
            if len(conds) > 1:
                self.notes.add("each combined with several rows")
            c0 = each_conds[0]
            if _signame(c0.get("first_signal")) == "signal-each":
                dom = self._sel(per, c0.get("first_signal_networks"))
            else:
                dom = self._sel(per, c0.get("second_signal_networks"))
            for s in dom:
                if self._rows(conds, per, s):
                    for o in outs:
                        emit(o, s)
        else:
            if self._rows(conds, per):
                for o in outs:
                    emit(o)
        return {s: v for s, v in res.items() if v != 0}

    # ---- time -------------------------------------------------------
    def step(self):
        nets = self.networks()
        new = {}
        for n in self._comb:
            e = self.ents[n]
            per = self.read(nets, n)
            if e["name"] == "arithmetic-combinator":
                new[n] = self._arith(e, per)
            else:
                new[n] = self._decider(e, per)
        changed = False
        for n, o in new.items():
            if o != self.out[n]:
                changed = True
            self.out[n] = o
        self.tick_no += 1
        return changed

    def run(self, ticks):
        for _ in range(ticks):
            self.step()

    def settle(self, max_ticks=None):
        """Run until combinator outputs stop changing. Returns ticks used or None."""
        if max_ticks is None:
            max_ticks = len(self._comb) + 4
        for i in range(max_ticks + 1):
            if not self.step():
                return i
        return None

    # ---- observation ------------------------------------------------
    def signals_at(self, n, conns=(1, 2)):
        """Sum of selected connector networks at entity n (non-zero signals)."""
        nets = self.networks()
        per = self.read(nets, n, (1, 2))
        sel = {"red": 1 in conns, "green": 2 in conns}
        return self._sel(per, sel)

    def per_colour_at(self, n):
        nets = self.networks()
        per = self.read(nets, n, (1, 2))
        return {k: {s: v for s, v in d.items() if v != 0} for k, d in per.items()}

    def circuit_condition(self, n):
        """Evaluate a circuit-controlled entity's enable condition.

        Returns (controlled, truth).  controlled False means circuit_enabled is
        off/absent (the entity ignores the network)."""
        e = self.ents[n]
        cb = e.get("control_behavior", {}) or {}
        if e["name"] in NO_ENABLE_FLAG:
            # pumps and power switches have no enable flag: a wired condition controls them
            if cb.get("circuit_condition") is None:
                return (False, None)
        elif not cb.get("circuit_enabled", False):
            return (False, None)
        c = cb.get("circuit_condition")
        if c is None:
            return (True, False)
        nets = self.networks()
        per = self.read(nets, n, (1, 2))
        return (True, self._cond(c, per))

    def find_desc(self, sub):
        return [n for n, e in self.ents.items() if sub in (e.get("player_description") or "")]


class LogicalSim(Sim):
    """Directed-delivery execution (see module docstring).

    cap: {"ids": [entity id per entity_number-1],
          "preserved": [(src, dst, colour, src_side, dst_side)],
          "edges": [(src, dst, signal, colour, merge_id)]}
    """

    def __init__(self, bp, cap, mixed_rows="and_precedence"):
        super().__init__(bp, mixed_rows)
        num = {i: n + 1 for n, i in enumerate(cap["ids"])}
        self.num = num
        self.p2: dict = {}

        def conn(ent, side, col):
            e = self.ents[num[ent]]
            base = 1 if col == "red" else 2
            if e["name"] in COMBINATORS and side == "output":
                return (num[ent], base + 2)
            return (num[ent], base)

        self._conn = conn
        for s_, t, col, ss, ts in cap.get("preserved", []):
            if s_ in num and t in num:
                a, b = self._find2(conn(s_, ss, col)), self._find2(conn(t, ts, col))
                if a != b:
                    self.p2[a] = b
        self.deliv = defaultdict(set)
        for s_, t, _sig, col, _mg in cap["edges"]:
            if s_ in num and t in num:
                self.deliv[conn(t, "input", col)].add(conn(s_, "output", col))
        self._class_cache: dict = {}

    def _find2(self, x):
        p = self.p2
        p.setdefault(x, x)
        while p[x] != x:
            p[x] = p[p[x]]
            x = p[x]
        return x

    def _class_emitters(self, c):
        got = self._class_cache.get(c)
        if got is not None:
            return got
        res = set()
        if c in self.p2:
            root = self._find2(c)
            for n, e in self.ents.items():
                ocs = (3, 4) if e["name"] in COMBINATORS else (1, 2)
                for oc in ocs:
                    if (n, oc) in self.p2 and self._find2((n, oc)) == root:
                        res.add(n)
        n, cc = c
        e = self.ents[n]
        ocs = (3, 4) if e["name"] in COMBINATORS else (1, 2)
        if cc in ocs:
            res.add(n)
        self._class_cache[c] = res
        return res

    def read(self, nets, n, conns=(1, 2)):
        per = {}
        for c in conns:
            d: dict = defaultdict(int)
            srcs = set()
            if (n, c) in self.p2:
                srcs |= self._class_emitters((n, c))
                e = self.ents[n]
                if e["name"] not in COMBINATORS:
                    # a non-combinator does not read its own emission as "input"
                    # differently from the physical model: it is on the wire.
                    pass
            for sc in self.deliv.get((n, c), ()):
                srcs |= self._class_emitters(sc)
            for s_ in srcs:
                o = self.overrides.get(s_)
                if o is None:
                    o = self.out[s_]
                for k, v in o.items():
                    d[k] = w32(d[k] + v)
            per[c] = d
        return per

    def networks(self):
        return {}
