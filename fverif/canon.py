"""Canonical form of the logical circuit of a blueprint (C07, C18, C19).

Logical circuit = multiset of configured non-pole entities (name, control_behavior, static
properties, description) + partition of their circuit connectors into networks with poles
contracted.  Compared up to isomorphism by colour refinement: isomorphic circuits always get
the same signature (no false alarm); distinct circuits may collide (under-distinguishing)."""
from __future__ import annotations

import hashlib
import json

from . import protos, wiring

STATIC_KEYS = ("direction", "station", "recipe", "bar", "always_on", "use_colors", "color", "filters",
               "player_description", "items", "request_filters", "variation", "switch_state")


def _h(x):
    return hashlib.sha1(json.dumps(x, sort_keys=True, default=str).encode()).hexdigest()[:16]


def _bp(bp):
    return bp["blueprint"] if "blueprint" in bp else bp


def entity_config(e):
    cfg = {"name": e["name"], "cb": e.get("control_behavior") or {}}
    for k in STATIC_KEYS:
        if k in e:
            cfg[k] = e[k]
    return cfg


def signature(bp, rounds=4, drop_grid_poles=True):
    b = _bp(bp)
    ents = {e["entity_number"]: e for e in b.get("entities", []) if not protos.is_pole(e["name"])}
    label = {n: _h(entity_config(e)) for n, e in ents.items()}
    nets = [sorted(c) for c in wiring.physical_partition(bp)]
    member = {}
    for i, net in enumerate(nets):
        for (n, c) in net:
            member.setdefault(n, []).append((c, i))
    for _ in range(rounds):
        netsig = []
        for net in nets:
            netsig.append(_h(sorted((label.get(n, "?"), c) for n, c in net)))
        new = {}
        for n in ents:
            conns = sorted((c, netsig[i]) for c, i in member.get(n, []))
            new[n] = _h([label[n], conns])
        label = new
    netsig = sorted(_h(sorted((label.get(n, "?"), c) for n, c in net)) for net in nets)
    return {"entities": sorted(label.values()), "networks": netsig,
            "sig": _h([sorted(label.values()), netsig]), "n_entities": len(ents), "n_networks": len(nets)}


def config_multiset(bp):
    b = _bp(bp)
    out = {}
    for e in b.get("entities", []):
        if protos.is_pole(e["name"]):
            continue
        k = _h(entity_config(e))
        out[k] = out.get(k, 0) + 1
    return out


def explain_difference(bp_a, bp_b, limit=4):
    """Human-readable difference between two circuits' configured entities."""
    a, b = _bp(bp_a), _bp(bp_b)

    def table(x):
        t = {}
        for e in x.get("entities", []):
            if protos.is_pole(e["name"]):
                continue
            t.setdefault(_h(entity_config(e)), []).append(entity_config(e))
        return t

    ta, tb = table(a), table(b)
    only_a = [v[0] for k, v in ta.items() if len(v) > len(tb.get(k, []))][:limit]
    only_b = [v[0] for k, v in tb.items() if len(v) > len(ta.get(k, []))][:limit]
    return {"only_first": only_a, "only_second": only_b,
            "networks": [len(wiring.physical_partition(bp_a)), len(wiring.physical_partition(bp_b))]}
