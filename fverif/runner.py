"""Run a check: cases -> workers -> three-valued verdicts -> evidence, replay files, exit code.

Verdict discipline (DESIGN.md 2.7/2.8):
  case verdicts: held | violated | inconclusive | vacuous(rejected-but-valid etc.)
  a violated case may carry "finding": <id>; it is downgraded to a known finding only
  if <id> is listed for this property in known_findings.json (committed, never written
  here).  Exit 1 + VIOLATION line for every other violation; exit 2 when the run
  observed too little to say anything; exit 0 otherwise.
"""
from __future__ import annotations

import collections
import hashlib
import importlib
import json
import os
import sys
import time

from . import pool

HERE = os.path.dirname(os.path.dirname(os.path.abspath(__file__)))
EVID = os.path.join(HERE, "evidence")
REPLAYS = os.path.join(EVID, "replays")
KNOWN = os.path.join(HERE, "known_findings.json")


def load_known(prop):
    try:
        with open(KNOWN) as f:
            data = json.load(f)
    except FileNotFoundError:
        return {}
    return {e["id"]: e for e in data.get("findings", []) if e.get("property") == prop}


def _short(obj, n=1200):
    s = json.dumps(obj, default=str)
    return s if len(s) <= n else s[:n] + "..."


def main(prop, argv):
    import argparse

    ap = argparse.ArgumentParser()
    ap.add_argument("--tier", default=os.environ.get("VERIF_TIER", "quick"))
    ap.add_argument("--replay")
    ap.add_argument("--workers", type=int, default=None)
    ap.add_argument("--limit", type=int, default=None)
    ap.add_argument("--only")
    ap.add_argument("--no-evidence", action="store_true")
    args = ap.parse_args(argv)
    tier = args.tier if args.tier in ("quick", "thorough") else "quick"
    seed = int(os.environ.get("VERIF_SEED", "0") or 0)
    mod = importlib.import_module("fverif.checks." + prop)
    if args.replay:
        return replay(prop, mod, args.replay)
    return run(prop, mod, tier, seed, args)


def replay(prop, mod, path):
    with open(path) as f:
        rep = json.load(f)
    case = rep["case"]
    res = pool.run_cases(prop, [case], nworkers=1, timeout=getattr(mod, "TIMEOUT", 180) * 2)
    _c, r = res[0]
    print(json.dumps(r, indent=1, default=str)[:6000])
    known = load_known(prop)
    if r.get("verdict") == "violated" and r.get("finding") in known:
        print("KNOWN-FINDING: property=%s %s" % (prop, known[r["finding"]]["what"]))
        return 0
    if r.get("verdict") == "violated":
        print("VIOLATION property=%s replay=%s" % (prop, path))
        return 1
    return 0


def run(prop, mod, tier, seed, args):
    t0 = time.time()
    os.makedirs(REPLAYS, exist_ok=True)
    known = load_known(prop)
    cases = mod.gen_cases(tier, seed)
    if args.only:
        cases = [c for c in cases if c.get("stratum") == args.only or str(c.get("id")) == args.only]
    if args.limit:
        cases = cases[: args.limit]
    # known-finding witnesses run first, through the same oracle
    wit = []
    for fid, ent in sorted(known.items()):
        if ent.get("case") is not None:
            c = dict(ent["case"])
            c["id"] = "witness:" + fid
            c["witness_of"] = fid
            wit.append(c)
    allcases = wit + cases
    budget = getattr(mod, "BUDGET", {}).get(tier)
    deadline = (t0 + budget) if budget else None
    results = pool.run_cases(prop, allcases, nworkers=args.workers, timeout=getattr(mod, "TIMEOUT", 180),
                             progress=200 if len(allcases) > 400 else None, deadline=deadline)
    counts = collections.Counter()
    strata = collections.defaultdict(collections.Counter)
    shapes_nontrivial = set()
    violations = []
    known_seen = collections.Counter()
    inconcl_why = collections.Counter()
    samples = []
    monitor_counts = collections.Counter()
    rejected_samples = []
    extra_samples = collections.defaultdict(list)
    for case, r in results:
        if r is None:
            continue
        v = r.get("verdict", "inconclusive")
        st = case.get("stratum", "-")
        if v == "skipped":
            counts["skipped"] += 1
            continue
        for k, n in (r.get("monitors") or {}).items():
            monitor_counts[k] += n
        if case.get("witness_of"):
            fid = case["witness_of"]
            if v == "violated" and r.get("finding") == fid:
                known_seen[fid] += 1
                counts["witness_reproduced"] += 1
            elif v == "violated":
                r = dict(r)
                violations.append((case, r))
                counts["violated"] += 1
            else:
                counts["witness_not_reproduced"] += 1
            continue
        counts["cases"] += 1
        strata[st][v] += 1
        if v == "violated":
            fid = r.get("finding")
            if fid and fid in known:
                known_seen[fid] += 1
                counts["known"] += 1
                strata[st]["known"] += 1
                strata[st]["violated"] -= 1
                if len(extra_samples["known:" + fid]) < 2:
                    extra_samples["known:" + fid].append({"case_id": case.get("id"), "why": r.get("why"),
                                                          "witness": r.get("witness")})
            else:
                violations.append((case, r))
                counts["violated"] += 1
        elif v == "held":
            counts["held"] += 1
        elif v == "vacuous":
            counts["vacuous"] += 1
            if len(rejected_samples) < 5:
                rejected_samples.append({"case_id": case.get("id"), "why": r.get("why")})
        else:
            counts["inconclusive"] += 1
            inconcl_why[(r.get("why") or "?")[:80]] += 1
        if v in ("held", "violated") and r.get("nontrivial") and r.get("shape"):
            shapes_nontrivial.add(r["shape"])
        if v == "held" and r.get("sample") is not None and len(samples) < getattr(mod, "NSAMPLES", 4):
            if r.get("nontrivial"):
                samples.append(r["sample"])
    evaluations = sum((r or {}).get("evaluations", 0) for _c, r in results if r)
    # replay files + lines
    lines = []
    nviol = 0
    for case, r in violations:
        nviol += 1
        h = hashlib.sha1(json.dumps(case, sort_keys=True, default=str).encode()).hexdigest()[:10]
        path = os.path.join(REPLAYS, "%s-%s.json" % (prop, h))
        with open(path, "w") as f:
            json.dump({"property": prop, "seed": seed, "tier": tier, "case": case, "result": r}, f, indent=1, default=str)
        if nviol <= 25:
            lines.append("VIOLATION property=%s replay=%s" % (prop, os.path.relpath(path, HERE)))
            print("  why: %s" % (str(r.get("why"))[:300]), file=sys.stderr)
    for fid, n in sorted(known_seen.items()):
        lines.append("KNOWN-FINDING: property=%s %s [%s, re-observed %d time(s)]" % (prop, known[fid]["what"], fid, n))
    conclusive = counts["held"] + counts["violated"] + counts["known"]
    min_frac = getattr(mod, "MIN_CONCLUSIVE", 0.5)
    inconclusive_run = False
    why_inc = []
    if counts["cases"] == 0 or conclusive < max(2, min_frac * counts["cases"]):
        inconclusive_run = True
        why_inc.append("too few conclusive cases (%d of %d)" % (conclusive, counts["cases"]))
    for mon in getattr(mod, "REQUIRED_MONITORS", []):
        if monitor_counts.get(mon, 0) == 0:
            inconclusive_run = True
            why_inc.append("monitor %s never evaluated" % mon)
    if len(shapes_nontrivial) < 2 and not violations:
        inconclusive_run = True
        why_inc.append("fewer than 2 distinct non-trivial cases")
    wall = time.time() - t0
    cov = {
        "evaluations": int(evaluations) or int(conclusive),
        "distinct_nontrivial": len(shapes_nontrivial),
        "rule": mod.RULE,
        "samples": samples or [{"note": "no held non-trivial sample recorded"}],
        "cases": dict(counts),
        "strata": {k: dict(v) for k, v in sorted(strata.items())},
        "monitor_events": dict(monitor_counts),
        "inconclusive_reasons": dict(inconcl_why.most_common(8)),
        "vacuous_samples": rejected_samples,
        "known_findings_reobserved": dict(known_seen),
        "known_finding_samples": dict(extra_samples),
        "run_verdict": "violated" if violations else ("inconclusive" if inconclusive_run else "held on what was explored"),
        "run_inconclusive_because": why_inc,
    }
    if hasattr(mod, "summarize"):
        try:
            cov.update(mod.summarize(results) or {})
        except Exception as ex:  # noqa: BLE001
            cov["summarize_error"] = repr(ex)
    ev = {
        "property_id": prop,
        "tier": tier,
        "seed": seed,
        "level": mod.LEVEL,
        "coverage": cov,
        "assumptions": list(getattr(mod, "ASSUMPTIONS", [])),
        "wall_s": round(wall, 2),
        "violations": len(violations),
    }
    if not args.no_evidence:
        os.makedirs(EVID, exist_ok=True)
        tmp = os.path.join(EVID, prop + ".json.tmp")
        with open(tmp, "w") as f:
            json.dump(ev, f, indent=1, default=str)
        os.replace(tmp, os.path.join(EVID, prop + ".json"))
    for ln in lines:
        print(ln)
    print("%s %s seed=%d: %s in %.1fs; evaluations=%d distinct_nontrivial=%d" % (
        prop, tier, seed, dict(counts), wall, cov["evaluations"], cov["distinct_nontrivial"]))
    if violations:
        return 1
    if inconclusive_run:
        print("INCONCLUSIVE property=%s %s" % (prop, "; ".join(why_inc)))
        return 2
    return 0
