"""Connector partitions: what the emitted wires connect vs what the planner meant to connect."""
from __future__ import annotations

from collections import defaultdict

from .fsim import COMBINATORS

POLES = ("small-electric-pole", "medium-electric-pole", "big-electric-pole", "substation")


class UF:
    def __init__(self):
        self.p = {}

    def find(self, x):
        p = self.p
        p.setdefault(x, x)
        r = x
        while p[r] != r:
            r = p[r]
        while p[x] != r:
            p[x], x = r, p[x]
        return r

    def union(self, a, b):
        ra, rb = self.find(a), self.find(b)
        if ra != rb:
            self.p[ra] = rb

    def classes(self):
        g = defaultdict(set)
        for x in list(self.p):
            g[self.find(x)].add(x)
        return list(g.values())


def _bp(bp):
    return bp["blueprint"] if "blueprint" in bp else bp


def physical_partition(bp, drop_poles=True):
    """Classes (size >= 2) of circuit connectors joined by the emitted wires.

    Pole connectors are removed from the classes (poles are transparent)."""
    bp = _bp(bp)
    ents = {e["entity_number"]: e for e in bp.get("entities", [])}
    uf = UF()
    for w in bp.get("wires", []) or []:
        e1, c1, e2, c2 = w
        if c1 >= 5 or c2 >= 5:
            continue
        uf.union((e1, c1), (e2, c2))
    out = set()
    for cl in uf.classes():
        if drop_poles:
            cl = {x for x in cl if ents.get(x[0], {}).get("name") not in POLES}
        if len(cl) >= 2:
            out.add(frozenset(cl))
    return out


def planned_partition(bp, cap):
    """Classes (size >= 2) of connectors under the planner's own edge list:
    routed edges (source output ~ sink input on the edge colour) plus the explicit
    module wires present before routing."""
    bp = _bp(bp)
    ents = {e["entity_number"]: e for e in bp.get("entities", [])}
    num = {i: n + 1 for n, i in enumerate(cap["ids"])}

    def conn(ent, side, col):
        e = ents[num[ent]]
        base = 1 if col == "red" else 2
        if e["name"] in COMBINATORS and side == "output":
            return (num[ent], base + 2)
        return (num[ent], base)

    uf = UF()
    for s_, t, col, ss, ts in cap.get("preserved", []):
        if s_ in num and t in num:
            uf.union(conn(s_, ss, col), conn(t, ts, col))
    for s_, t, _sig, col, _mg in cap.get("edges", []):
        if s_ in num and t in num:
            uf.union(conn(s_, "output", col), conn(t, "input", col))
    out = set()
    for cl in uf.classes():
        cl = {x for x in cl if ents.get(x[0], {}).get("name") not in POLES}
        if len(cl) >= 2:
            out.add(frozenset(cl))
    return out


def partition_diff(a, b, limit=4):
    """Human-readable difference of two partitions (sets of frozensets)."""
    only_a = [sorted(x) for x in a - b][:limit]
    only_b = [sorted(x) for x in b - a][:limit]
    return {"only_first": only_a, "only_second": only_b}
