"""Drive the real compiler from /repo's working tree with harness-attached instrumentation.

Nothing in /repo is edited: the plan/solver monitors wrap the real objects after
import (guard FACTO_VERIF, harness only).  See DESIGN.md 2.4-2.6.
"""
from __future__ import annotations

import json
import logging
import os
import re
import sys
import time
import types

REPO = os.environ.get("FVERIF_REPO", "/repo")

_state = {
    "ready": False,
    "schedule": ("first", 0),
    "solves": [],
    "cap": None,
    "attempts": 0,
}


def setup():
    """Import the compiler from REPO and attach the always-on monitors."""
    if _state["ready"]:
        return
    os.environ.setdefault("FACTO_VERIF", "1")
    sys.dont_write_bytecode = True
    if REPO not in sys.path:
        sys.path.insert(0, REPO)
    logging.disable(logging.CRITICAL)
    import faulthandler

    faulthandler.enable()
    import warnings

    warnings.filterwarnings("ignore")
    import dsl_compiler.cli as cli  # noqa: F401
    import dsl_compiler.src.layout.integer_layout_solver as ils
    import dsl_compiler.src.layout.planner as planner_mod
    import dsl_compiler.src.layout.connection_planner as cp_mod
    import dsl_compiler.src.emission.emitter as em_mod

    assert os.path.realpath(cli.__file__).startswith(os.path.realpath(REPO)), cli.__file__
    _install_solver_proxy(ils)
    _install_plan_monitor(planner_mod, cp_mod, em_mod)
    _state["ready"] = True


# ------------------------------------------------------------ solver schedules

def _install_solver_proxy(ils):
    real = ils.cp_model

    class CpSolver(real.CpSolver):
        def Solve(self, model, callback=None):  # noqa: N802
            kind = _state["schedule"][0]
            args = _state["schedule"][1:]
            t0 = time.time()
            rec = {"schedule": list(_state["schedule"])}
            if kind == "default":
                status = super().Solve(model, callback)
            elif kind == "first":
                seed = args[0] if args else 0
                self.parameters.num_workers = 1
                self.parameters.random_seed = int(seed) & 0x7FFFFFFF
                self.parameters.randomize_search = True
                self.parameters.stop_after_first_solution = True
                status = super().Solve(model, callback)
            elif kind == "budget":
                d = args[0]
                seed = args[1] if len(args) > 1 else 0
                self.parameters.num_workers = 1
                self.parameters.random_seed = int(seed) & 0x7FFFFFFF
                self.parameters.max_deterministic_time = float(d)
                status = super().Solve(model, callback)
            elif kind == "fail":
                k = args[0]
                seed = args[1] if len(args) > 1 else 0
                if len(_state["solves"]) < k:
                    # a timed-out strategy: run the real solver with a vanishing deterministic budget
                    self.parameters.num_workers = 1
                    self.parameters.max_deterministic_time = 1e-9
                    self.parameters.max_time_in_seconds = 0.001
                    status = super().Solve(model, callback)
                else:
                    self.parameters.num_workers = 1
                    self.parameters.random_seed = int(seed) & 0x7FFFFFFF
                    self.parameters.randomize_search = True
                    self.parameters.stop_after_first_solution = True
                    status = super().Solve(model, callback)
            else:
                raise ValueError("unknown schedule %r" % (kind,))
            rec["status"] = int(status)
            rec["wall"] = round(time.time() - t0, 4)
            _state["solves"].append(rec)
            return status

    proxy = types.ModuleType("cp_model_proxy")

    def _getattr(name):
        return getattr(real, name)

    proxy.__getattr__ = _getattr  # type: ignore[attr-defined]
    proxy.CpSolver = CpSolver
    proxy._real = real
    ils.cp_model = proxy
    # EarlyStopCallback was defined against the real module at import; fine.


def set_schedule(*sched):
    _state["schedule"] = tuple(sched)


# ------------------------------------------------------------ plan monitor

def _install_plan_monitor(planner_mod, cp_mod, em_mod):
    LP = planner_mod.LayoutPlanner
    CP = cp_mod.ConnectionPlanner
    BE = em_mod.BlueprintEmitter
    orig_plan = LP.plan_layout
    orig_sf = CP._add_self_feedback_connections
    orig_emit = BE.emit_from_plan
    orig_attempt = LP._reset_layout_state

    def plan_layout(self, *a, **k):
        cap = _state["cap"] = {"edges": [], "preserved": [], "wires": [], "ids": [], "attempts": 0,
                               "relay_nets": [], "placements": {}}
        r = orig_plan(self, *a, **k)
        cp = self.connection_planner
        if cp is not None:
            cap["edges"] = [
                (e.source_entity_id, e.sink_entity_id, e.resolved_signal_name,
                 ("red" if cp._is_memory_feedback_edge(e.source_entity_id, e.sink_entity_id, e.resolved_signal_name)
                  else cp._edge_color_map.get((e.source_entity_id, e.sink_entity_id, e.resolved_signal_name), "red")),
                 e.originating_merge_id)
                for e in cp._circuit_edges if e.source_entity_id and e.sink_entity_id
            ]
            cap["relay_nets"] = [
                (n.entity_id, sorted(n.networks_red), sorted(n.networks_green))
                for n in cp.relay_network.relay_nodes.values()
            ]
            cap["routing_failed"] = bool(cp._routing_failed)
            cap["coloring_ok"] = bool(cp._coloring_success)
            cap["coloring_conflicts"] = [[list(c.nodes[0]), list(c.nodes[1]), sorted(c.sinks)]
                                         for c in cp._coloring_conflicts][:8]
        cap["wires"] = [
            (w.source_entity_id, w.sink_entity_id, w.wire_color, w.source_side, w.sink_side, w.signal_name)
            for w in r.wire_connections
        ]
        pl = {}
        for pid, p in r.entity_placements.items():
            pl[pid] = {"type": p.entity_type, "pos": p.position, "role": p.role,
                       "user": bool(p.properties.get("user_specified_position")),
                       "is_power_pole": bool(p.properties.get("is_power_pole"))}
        cap["placements"] = pl
        cap["plan"] = r
        return r

    def _sf(self):
        r = orig_sf(self)
        if _state["cap"] is not None:
            _state["cap"]["preserved"] = [
                (w.source_entity_id, w.sink_entity_id, w.wire_color, w.source_side, w.sink_side)
                for w in self.layout_plan.wire_connections
            ]
        return r

    def _reset(self):
        if _state["cap"] is not None:
            _state["cap"]["attempts"] += 1
        return orig_attempt(self)

    def emit(self, plan):
        bp = orig_emit(self, plan)
        if _state["cap"] is not None:
            _state["cap"]["ids"] = [e.id for e in bp.entities]
            _state["cap"]["blueprint_obj"] = bp
        return bp

    LP.plan_layout = plan_layout
    LP._reset_layout_state = _reset
    CP._add_self_feedback_connections = _sf
    BE.emit_from_plan = emit


# ------------------------------------------------------------ compile

class Build:
    def __init__(self):
        self.ok = False
        self.error = None
        self.error_kind = None
        self.bp = None
        self.text = None
        self.cap = None
        self.diags = []
        self.solves = []
        self.wall = 0.0


def compile_source(src, optimize=True, poles=None, schedule=("first", 0), retries=3,
                   source_name="<string>", use_json=True, config=None, keep_objects=False,
                   time_limit=None):
    """Compile with the real compile_dsl_source under a solver schedule."""
    setup()
    from dsl_compiler.cli import compile_dsl_source
    from dsl_compiler.src.common.constants import CompilerConfig

    b = Build()
    _state["schedule"] = tuple(schedule)
    _state["solves"] = []
    _state["cap"] = None
    kw = {}
    if config is not None:
        kw["config"] = config
    elif time_limit is not None:
        kw["config"] = CompilerConfig(layout_solver_time_limit=time_limit)
    t0 = time.time()
    try:
        ok, res, diags = compile_dsl_source(
            src, source_name=source_name, optimize=optimize, power_pole_type=poles,
            use_json=use_json, max_layout_retries=retries, **kw)
        b.diags = [str(d) for d in (diags or [])]
        if ok:
            b.ok = True
            b.text = res
            if use_json:
                b.bp = json.loads(res)
        else:
            b.error = str(res)
            b.error_kind = "reported"
    except BaseException as ex:  # noqa: BLE001 - the compiler raises RuntimeError/SyntaxError etc.
        if isinstance(ex, (KeyboardInterrupt, SystemExit)):
            raise
        b.error = "%s: %s" % (type(ex).__name__, str(ex)[:600])
        b.error_kind = type(ex).__name__
    b.wall = time.time() - t0
    b.solves = list(_state["solves"])
    cap = _state["cap"]
    if cap is not None and not keep_objects:
        cap = {k: v for k, v in cap.items() if k not in ("plan", "blueprint_obj")}
    b.cap = cap
    return b


# ------------------------------------------------------------ observation helpers

_RE_ANCHOR = re.compile(r"(?:\[[^\]]*\] )?(\S+) \(output anchor\)(?: -> (\S+))?")
_RE_CONST = re.compile(r"(?:\[[^\]]*\] )?(\S+) \((?:folded from \d+ constants: )?value=(-?\d+)( \(input\))?\)(?: -> (\S+))?")


_RE_INTERNAL = re.compile(r"^(bundle_const|const|arith|decider|wire_merge|folded_merge|bundle_arith|bundle_decider|bundle_gate)_\w*\d+")


class View:
    """Name-level view of a compiled blueprint."""

    def __init__(self, bp):
        if "blueprint" in bp:
            bp = bp["blueprint"]
        self.bp = bp
        self.anchors = {}    # name -> list of (entity_number, reported signal)
        self.consts = {}     # name -> list of (entity_number, value, is_input, reported signal)
        self.user = []       # non-compiler entities
        for e in bp.get("entities", []):
            d = e.get("player_description") or ""
            n = e["entity_number"]
            if e["name"] == "constant-combinator":
                m = _RE_ANCHOR.fullmatch(d)
                if m:
                    self.anchors.setdefault(m.group(1), []).append((n, m.group(2)))
                    continue
                m = _RE_CONST.fullmatch(d)
                if m and not _RE_INTERNAL.match(m.group(1)):
                    self.consts.setdefault(m.group(1), []).append(
                        (n, int(m.group(2)), bool(m.group(3)), m.group(4)))
                    continue
            if not d and e["name"] not in ("medium-electric-pole", "small-electric-pole", "big-electric-pole",
                                           "substation"):
                self.user.append(e)

    def input_entity(self, name):
        got = [c for c in self.consts.get(name, []) if c[2]]
        if len(got) != 1:
            return None
        return got[0]


def set_inputs(sim, view, values: dict, types: dict):
    """Override declared inputs.  types: name -> explicit signal name or None
    (None: use the name the compiler reports)."""
    missing = []
    for name, val in values.items():
        ent = view.input_entity(name)
        if ent is None:
            missing.append(name)
            continue
        n, _v, _inp, reported = ent
        sig = types.get(name) or reported
        cur = sim.out[n]
        if len(cur) == 1:
            sig = next(iter(cur))
        if sig is None:
            missing.append(name)
            continue
        sim.set_constant(n, {sig: val})
    return missing


def read_outputs(sim, view):
    """name -> {"signals": map on the anchor networks, "reported": signal name} for anchors,
    and const:<name> -> own emission for named constants."""
    res = {}
    for name, lst in view.anchors.items():
        if len(lst) != 1:
            res[name] = {"dup": len(lst)}
            continue
        n, rep = lst[0]
        res[name] = {"signals": dict(sim.signals_at(n)), "reported": rep}
    return res
