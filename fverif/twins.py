"""Twin transformers over program descriptions (DESIGN.md 2.3): unroll_loops, inline_calls,
paste_imports, rename_implicit, interleave."""
from __future__ import annotations

import copy

from . import lang


# ------------------------------------------------------------------ generic rewriting

def map_expr(e, fn):
    """Bottom-up rewrite of an expression tree; fn(node) -> node."""
    if not (isinstance(e, list) and e and isinstance(e[0], str) and e[0] in lang._EXPR_KINDS):
        return e
    out = [e[0]]
    for x in e[1:]:
        if isinstance(x, list) and x and isinstance(x[0], str) and x[0] in lang._EXPR_KINDS:
            out.append(map_expr(x, fn))
        elif isinstance(x, list) and e[0] in ("B", "call") and all(isinstance(y, list) for y in x):
            out.append([map_expr(y, fn) for y in x])
        else:
            out.append(x)
    return fn(out)


def subst(e, env):
    """Replace variable references / memory names / entity names per env (name -> expr or name)."""

    def fn(n):
        k = n[0]
        if k == "v" and n[1] in env:
            r = env[n[1]]
            return copy.deepcopy(r) if isinstance(r, list) else ["v", r]
        if k == "r" and n[1] in env:
            return ["r", _nm(env[n[1]])]
        if k in ("eo", "prop") and n[1] in env:
            return [k, _nm(env[n[1]])] + n[2:]
        if k in ("p", "t"):
            # type given as name.type
            ti = 2 if k == "p" else 1
            t = n[ti]
            if isinstance(t, list) and t[0] == "ty" and t[1] in env:
                n = list(n)
                n[ti] = ["ty", _nm(env[t[1]])]
                return n
        return n

    return map_expr(e, fn)


def _nm(x):
    if isinstance(x, list):
        if x[0] == "v":
            return x[1]
        raise ValueError("cannot use %r as a name" % (x,))
    return x


def subst_stmt(s, env, ren):
    """Substitute env in a statement; `ren` renames declared names (locals)."""
    k = s[0]

    def E(e):
        return subst(e, env)

    def D(name):
        return ren.get(name, name)

    def N(name):
        if name in ren:
            return ren[name]
        if name in env:
            return _nm(env[name])
        return name

    if k == "input":
        return ["input", D(s[1]), s[2], s[3]]
    if k in ("int", "sig", "bun", "assign"):
        return [k, D(s[1]), E(s[2])]
    if k == "mem":
        return ["mem", D(s[1]), s[2]]
    if k == "write":
        return ["write", N(s[1]), E(s[2]), E(s[3]) if s[3] is not None else None]
    if k == "latch":
        return ["latch", N(s[1]), E(s[2]), E(s[3]), E(s[4]), s[5]]
    if k == "place":
        return ["place", D(s[1]) if s[1] else None, s[2], E(s[3]), E(s[4]), s[5]]
    if k == "ent":
        return ["ent", D(s[1]), E(s[2])]
    if k == "set":
        return ["set", N(s[1]), s[2], E(s[3])]
    if k == "expr":
        return ["expr", E(s[1])]
    if k == "for":
        rng_ = list(s[2])
        if rng_[0] == "range":
            rng_ = ["range"] + [(_nm(env[x]) if isinstance(x, str) and x in env and not isinstance(env[x], list) else
                                 (env[x][1] if isinstance(x, str) and x in env and env[x][0] == "n" else x))
                                for x in rng_[1:]]
        # the iterator shadows a substituted name (parameter) of the same name inside the body
        inner_env = {k_: v_ for k_, v_ in env.items() if k_ != s[1]}
        inner_ren = {k_: v_ for k_, v_ in ren.items() if k_ != s[1]}
        return ["for", s[1], rng_, [subst_stmt(b, inner_env, inner_ren) for b in s[3]]]
    if k in ("raw", "import", "func"):
        return copy.deepcopy(s)
    raise ValueError(k)


def declared_names(body):
    out = []
    for s in body:
        if s[0] in ("input", "int", "sig", "bun", "mem", "assign", "ent") or (s[0] == "place" and s[1]):
            out.append(s[1])
    return out


# ------------------------------------------------------------------ unroll_loops

def unroll_loops(prog, _consts=None, _ctr=None):
    """Replace every for loop by copies of its body, iterator replaced by its value, names
    declared in the body renamed apart per iteration."""
    consts = dict(_consts or {})
    ctr = _ctr if _ctr is not None else [0]
    out = []
    for s in prog:
        if s[0] == "int":
            try:
                consts[s[1]] = lang.Interp([["int", n, ["n", v]] for n, v in consts.items()] + [s]).run().lookup(s[1]).value
            except Exception:  # noqa: BLE001
                pass
            out.append(copy.deepcopy(s))
        elif s[0] == "for":
            _, it, rng_, body = s

            class _I:
                def lookup(self_inner, name):
                    return lang.Val("int", None, consts[name])

            for val in lang.loop_values(rng_, _I()):
                ctr[0] += 1
                tag = "__u%d" % ctr[0]
                ren = {n: n + tag for n in declared_names(body)}
                env = dict(ren)
                env[it] = ["n", val]
                inner = [subst_stmt(b, env, ren) for b in body]
                out.extend(unroll_loops(inner, consts, ctr))
        elif s[0] == "func":
            f = copy.deepcopy(s)
            f[3] = unroll_loops(f[3], consts, ctr)
            out.append(f)
        else:
            out.append(copy.deepcopy(s))
    return out


# ------------------------------------------------------------------ inline_calls

def inline_calls(prog):
    """Replace every call of a user function by its body: parameters bound to the argument
    expressions, locals renamed apart, the return expression in place of the call."""
    funcs = {}
    ctr = [0]

    def expand_expr(e, pre):
        def fn(n):
            if n[0] == "call" and n[1] in funcs:
                return do_call(n, pre)
            return n

        return map_expr(e, fn)

    def do_call(n, pre):
        _f, name, params, body, ret = funcs[n[1]]
        ctr[0] += 1
        tag = "__c%d" % ctr[0]
        env = {}
        for (pt, pn), a in zip(params, n[2]):
            env[pn] = a
        ren = {x: x + tag for x in declared_names(body)}
        env2 = dict(env)
        env2.update(ren)
        for b in body:
            for st in expand_stmt(subst_stmt(b, env2, ren)):
                pre.append(st)
        if ret is None:
            return ["n", 0]
        r = subst(ret, env2)
        return expand_expr(r, pre)

    def expand_stmt(s):
        k = s[0]
        if k == "func":
            funcs[s[1]] = s
            return []
        pre = []
        s2 = copy.deepcopy(s)
        if k in ("int", "sig", "bun", "assign"):
            s2[2] = expand_expr(s2[2], pre)
        elif k == "write":
            s2[2] = expand_expr(s2[2], pre)
            if s2[3] is not None:
                s2[3] = expand_expr(s2[3], pre)
        elif k == "latch":
            for i in (2, 3, 4):
                s2[i] = expand_expr(s2[i], pre)
        elif k == "place":
            s2[3] = expand_expr(s2[3], pre)
            s2[4] = expand_expr(s2[4], pre)
        elif k == "set":
            s2[3] = expand_expr(s2[3], pre)
        elif k == "expr":
            if s2[1][0] == "call" and s2[1][1] in funcs:
                do_call(s2[1], pre)
                return pre
            s2[1] = expand_expr(s2[1], pre)
        elif k == "for":
            body = []
            for b in s2[3]:
                body.extend(expand_stmt(b))
            s2[3] = body
        return pre + [s2]

    out = []
    alias = {}
    for s in prog:
        if alias:
            s = subst_stmt(s, alias, {}) if s[0] != "func" else s
        if s[0] == "ent":
            pre = []
            r = expand_expr(s[2], pre)
            out.extend(pre)
            if r[0] == "v":
                alias[s[1]] = r[1]
            continue
        out.extend(expand_stmt(s))
    return out


def entity_returning_fix(prog):
    """`Entity e = f(...)` with f returning an entity: after inlining the call is replaced by
    the (renamed) entity variable; turn `["sig", e, ["v", ent]]` style leftovers into aliases."""
    return prog


# ------------------------------------------------------------------ paste_imports

def paste_imports(prog, files):
    seen = set()

    def go(p):
        out = []
        for s in p:
            if s[0] == "import":
                key = id(files.get(s[1])) if s[1] in files else s[1]   # two spellings of one file
                if key in seen:
                    continue
                seen.add(key)
                out.extend(go(files.get(s[1], [])))
            else:
                out.append(copy.deepcopy(s))
        return out

    return go(prog)


# ------------------------------------------------------------------ interleave

def interleave(p, q, rng):
    """Order-preserving random merge of two statement lists."""
    p, q = list(p), list(q)
    out = []
    while p or q:
        if p and (not q or rng.random() < len(p) / (len(p) + len(q))):
            out.append(p.pop(0))
        else:
            out.append(q.pop(0))
    return out


def rename_all(prog, suffix):
    """Rename every declared name (top level, function names included) by appending suffix."""
    names = set(declared_names(prog))
    fnames = {s[1] for s in prog if s[0] == "func"}
    ren = {n: n + suffix for n in names}

    def fn(n):
        if n[0] == "call" and n[1] in fnames:
            return ["call", n[1] + suffix, n[2]]
        return n

    out = []
    for s in prog:
        if s[0] == "func":
            f = copy.deepcopy(s)
            f[1] = f[1] + suffix
            f[3] = [_map_stmt_exprs(subst_stmt(b, ren, {}), fn) for b in f[3]]
            if f[4] is not None:
                f[4] = map_expr(subst(f[4], ren), fn)
            out.append(f)
        else:
            out.append(_map_stmt_exprs(subst_stmt(s, ren, ren), fn))
    return out


def _map_stmt_exprs(s, fn):
    s = list(s)
    for i, x in enumerate(s):
        if isinstance(x, list) and x and isinstance(x[0], str) and x[0] in lang._EXPR_KINDS:
            s[i] = map_expr(x, fn)
    if s[0] == "for":
        s[3] = [_map_stmt_exprs(b, fn) for b in s[3]]
    return s


# ------------------------------------------------------------------ rename_implicit

def rename_implicit(prog, fresh):
    """Give every untyped value a fresh, otherwise unused explicit type (C13 twin).

    fresh: callable returning a new explicit signal name.  Inputs without a type and
    memories without a type get one; every sub-expression whose value is carried on a
    compiler-chosen signal is projected onto a fresh signal (except where the grammar wants a
    bare comparison: the condition of `cond : value`)."""
    out = []
    for i, s in enumerate(prog):
        s = copy.deepcopy(s)
        if s[0] == "input" and s[2] is None:
            s[2] = fresh()
            out.append(s)
            continue
        if s[0] == "mem" and s[2] is None:
            s[2] = fresh()
            out.append(s)
            continue
        if s[0] in ("sig", "set", "write", "latch"):
            try:
                it = lang.Interp(out).run()
            except Exception:  # noqa: BLE001
                out.append(s)
                continue

            def wrap(n, _it=it):
                if n[0] in ("n", "v", "t", "p", "r"):
                    return n
                try:
                    v = _it.ev(n)
                except Exception:  # noqa: BLE001
                    return n
                if v.kind == "sig" and v.type is None:
                    return ["p", n, fresh()]
                return n

            def rewrite(e, top=True):
                if not (isinstance(e, list) and e and e[0] in lang._EXPR_KINDS):
                    return e
                if e[0] == "s":
                    # keep the condition a bare comparison; rewrite inside its operands only
                    c = e[1]
                    c2 = [c[0]] + [rewrite(x) if isinstance(x, list) and x and x[0] in lang._EXPR_KINDS else x for x in c[1:]]
                    return wrap(["s", c2, rewrite(e[2])])
                if e[0] in ("any", "all", "bf", "bg", "bb", "bs", "B", "eo"):
                    return e
                e2 = [e[0]] + [rewrite(x) if isinstance(x, list) and x and isinstance(x[0], str) and x[0] in lang._EXPR_KINDS else x
                               for x in e[1:]]
                return wrap(e2)

            if s[0] == "sig":
                s[2] = rewrite(s[2])
            elif s[0] == "set":
                pass
            elif s[0] == "write":
                mt = next((m[2] for m in out if m[0] == "mem" and m[1] == s[1]), None)
                s[2] = rewrite(s[2])
                if mt is not None and not (s[2][0] == "p" and s[2][2] == mt):
                    s[2] = ["p", s[2], mt]
        out.append(s)
    return out
