"""Source of /verif/known_findings.json (committed; never written by a check).

Regenerate with:  /venv/bin/python -m fverif.findings_src > known_findings.json
Every entry is keyed by mechanism; `case` is the fixed minimal witness re-run at the
start of every run of that property's check through the same oracle."""
from __future__ import annotations

import json

K1 = "K1-transitive-network-merge"
K1_WHAT = ("same-colour wire networks merge transitively through shared connectors, so a combinator can read "
           "same-named signals it was never meant to read (physical execution fails, directed-delivery "
           "execution of the planner's own edge list passes, emitted wiring equals the planned wiring)")


def case(prog, stratum, nval=4, **kw):
    c = {"stratum": stratum, "prog": prog, "nval": nval, "vseed": 1, "sseed": 1, "pseed": 1}
    c.update(kw)
    return c


FINDINGS = []
FIXED = [
    "fixed: property=C07 bf54f7f exported JSON/string dropped every combinator's control_behavior (draftsman picked the 2.1 converter for a blueprint stamped 2.0)",
    "fixed: property=C01 b078091 `(cond : value) | \"type\"` folded the projection into the copy-count decider, which then copied the absent target signal and produced 0",
    "fixed: property=C01 7345843 `x && y` / `x || y` treated a declared input whose default is 0 or 1 as a known boolean and lowered to x*y / (x+y)>0",
    "fixed: property=C02 eff7aff members of a nested bundle that is itself a wire merge (`{ pair, more }`) were never wired and disappeared",
    "fixed: property=C02 261848c `(bundle CMP signal) : out` left the scalar on the network `each` iterates over (scalar appears in / alters the filtered bundle)",
    "fixed: property=C02 43c51c8 `(sig CMP c) : bundle` leaked the condition signal into a merged bundle and produced nothing for a one-signal bundle",
    "fixed: property=C03 b2ac024 `write(v, when=en)` with `en` a declared input whose default is 1 was compiled as an unconditional write: the enable was never converted to the write-enable signal and the cell accumulated",
    "fixed: property=C05 0c38f95 the inlined (comparison) latch emitted one fixed row order whatever the set=/reset= order, so the priority flag was ignored in the both-active region",
    "fixed: property=C05 e23b49c the reset-first latch `S > R` (feedback summed into S) stayed ON when reset became active while set was active",
    "fixed: property=C06 d132cce `enable` on pumps / offshore pumps / power switches was written to an attribute draftsman never exports: the entity was emitted uncontrolled",
    "fixed: property=C06 aae6e36 a comparison inlined into an entity's condition was removed although a later statement also read it (`Signal f = x > 3; lamp.enable = f; Signal g = f + 1;` left g without a source)",
    "fixed: property=C10 9b11727 optimiser replacements were not applied to wire-merge sources, latch writes, multi-condition rows, inlined bundle conditions and placement coordinates",
    "fixed: property=C10 72073fa with optimisation on, a folded anonymous constant consumed by a copy-count decider output, a memory write or a wire merge was inlined as an integer and produced nothing",
    "fixed: property=C11 2459004 AST-level constant folding used Python arithmetic: floor division, divisor-signed remainder, no 32-bit wrap of + - * ** <<",
    "fixed: property=C11 968305c IR-level constant propagation did not wrap + - * ** << to 32 bits and took the remainder's sign from the divisor (division itself stays floor: listed finding)",
    "fixed: property=C11 14bbd6c `int k = 7 + 3;` declared a signal and `(\"t\", 5 * 2 - 9)` / `(\"t\", k)` produced 0: int-typed folds were returned as constant signals",
    "fixed: property=C16 b2d189c a Memory declared in a loop body (or in a function called twice, C15) was one shared cell: the memory id was derived from the declared name only",
    "fixed: property=C17 d6a9565 the documented `import \"lib/math.facto\";` only resolved when the working directory was the repository root (default import path listed the package directory instead of the repository root)",
    "fixed: property=C17 a03a28a an import cycle leading back to the compiled file inlined its text a second time (uses before definitions, duplicate definitions)",
    "fixed: property=C15 b2d189c two calls of a function declaring a Memory shared one cell (same commit as the C16 entry)",
    "fixed: property=C13 463dbab implicit signals were allocated from a pool that did not exclude the signals the program uses explicitly (`Signal a = (\"signal-A\", 5); Signal b = 7;` put both on signal-A)",
    "fixed: property=C20 008479a with optimisation on, a top-level name whose node CSE merged with an earlier identical value (`Signal n1 = f(x, 8);` after `Signal n0 = f(x, 8);`) got no output anchor",
    "fixed: property=C08 1fb17bb with --power-poles small the grid poles (wire reach 7.5) were used as circuit relays with 9-tile hops: circuit wires longer than the pole's reach",
    "fixed: property=C08 4d9d4b8 explicit memory/latch module wires (write gate -> hold gate, latch -> multiplier, remappers) were never relay-routed and exceeded the 9-tile reach under sprawling layouts",
    "fixed: property=C09 51a4d64 a non-square user entity placed with direction east/west was emitted off the tile grid, one tile away from the requested tile",
    "fixed: property=C14 575ebf7 `Bundle b = 5;` (a non-bundle value for a Bundle variable) was accepted",
    "fixed: property=C14 ee17f4d a zero loop step given through an int variable (`int s = 0; for i in 0..5 step s`) was accepted",
    "fixed: property=C14 033b49c a bare bundle comparison in an assignment (`lamp.enable = bundle > 0;`) was not diagnosed (unrelated DataFormatError or acceptance)",
    "fixed: property=C14 dc6fac7 `chest.output[\"signal-W\"]` (reserved signal in a bundle selection) was accepted",
    "fixed: property=C10 57d79bd CSE merged `(b > 5) : b` with `(b > 5) : 1` (decider key ignored copy_count_from_input); the second bundle carried the first one's counts",
    "fixed: property=C20 35f3957 a Bundle name whose node CSE merged into an identical earlier bundle lost its label and output anchor (alias map only covered scalar references)",
    "fixed: property=C18 ae4f4b2 poles were linked only to their nearest neighbours, leaving clusters of grid poles and wire relays as separate electric networks",
    "fixed: property=C18 52564f9 the pole grid was laid out before the layout from an entity-count estimate: about a third of the consumers of generated programs lay outside every supply area",
    "fixed: property=C04 75cac69 `m.write((m.read() != 6) : (m.read() + 3))`-style loops on one signal type: the colouring left the sum on the red network the hold gate is locked to and only logged the conflict (decider read m + m+3)",
    "fixed: property=C09 5a19c8d a user-placed combinator lost its `direction` property in the export and sat off the tile grid (centre computed for the rotated footprint)",
    "fixed: property=C02 256541e `(b > 5) : k` with `int k` output 1 instead of k for every passing member",
    "fixed: property=C02 dd45d41 `(b * 2)[\"signal-A\"] | \"signal-X\"` folded the projection into the each-combinator and summed all members into signal-X",
    "fixed: property=C02 180d736 `(s > 2 && s < 9) : b` and `f : b` (compound / named condition gating a bundle) produced an empty bundle",
    "fixed: property=C02 0f7aa36 a selection `b[\"t\"]` used as a bundle-literal member, as the scalar of an each-operation / filter or as a gating condition connected the whole wire of b: other members leaked or were iterated over",
    "fixed: property=C02 867a872 an anonymous bundle literal used as an operand (`{...} + 1`, `{...}[\"signal-A\"] + 2`) was folded / inlined as the scalar constant 0",
    "fixed: property=C02 95a486e `(4 != s) : b` (literal on the left of a gating condition) leaked s into the gated bundle",
    "fixed: property=C02 41e079a `b * s` next to `(s > 2) : b` (a scalar used as each-operand scalar and as gating condition, or a bundle iterated and gated) needed two colours for one source: one result was empty or leaked; also `(b[\"signal-A\"] > 5) : b` read the selected signal on the wrong colour",
    "fixed: property=C01 41e079a `i0 + i2 + i1 + i0` (a source that is a member of a + wire merge and also a direct operand of the merge's consumer) lost a term: the merge operand was read on one colour only",
    "fixed: property=C02 6b6b8df `(r * 3)[\"a\"] * r[\"b\"]` (scalar operation on signals selected from two bundle wires) joined both wires on one colour: operands summed, each-combinator fed back into itself (did not settle)",
    "fixed: property=C10 dfc3dde `{ r[\"a\"], (\"q\", 9) } * r[\"a\"]`: CSE merged the two per-use copies of the selected member into one source (one colour), the member was counted twice with optimisation on",
    "fixed: property=C02 ca68707 `any(b) == s` / `all(b) < s` with a signal threshold compared s with itself (threshold on the quantified network)",
    "fixed: property=C14 2ec2705 a bare bundle comparison used as an operand (`(bundle > 0) && (x > 1)`) was accepted and a blueprint emitted",
    "fixed: property=C13 81521f9 `Signal coal = 5;` (untyped value whose variable name is a signal name) was emitted on the `coal` signal and summed with explicit uses of it",
    "fixed: property=C16 2a99d5b a name declared in a loop body that shadows an outer name leaked out of the loop (later statements read the last iteration's value)",
    "fixed: property=C18 ffdd881 with --power-poles a grid pole could be put on the tile of a user-placed entity (pre-layout tile positions read as centres): about 10 percent of generated programs with user entities were refused with 'no feasible layout'",
    "fixed: property=C02 188e0cd `Bundle b = { s, t }; b * s` / `(b >= s) : b` / `any(b) > s` with the scalar being one of the bundle's own member sources: one source cannot be on both colours, the member was counted twice (25 became 50)",
    "fixed: property=C10 4335af3 `(<constant condition that is true>) : b` with a computed b was folded by constant propagation to the constant 1 (optimised build only)",
    "fixed: property=C05 d1441f7 a latch's inline set / reset comparison that also drives an entity's enable (shared by CSE) was inlined into the entity and removed: the latch never set / reset",
    "fixed: property=C05 802e71a `Memory m: \"signal-dot\"; m.write(100, reset=r, set=s)` with r on signal-dot: the remapped reset used the hard-wired internal signal-dot, i.e. the cell's own signal, and the latch never set (found on the thorough tier)",
    "fixed: property=C20 fd2f668 `Signal n = (a * 2) + 1; Signal d = a * 2;`: the shared combinator kept the description 'computing n'; no combinator carried d's name and line",
    "fixed: property=C13 ead468b `(y * 2) | x.type` with an untyped x emitted x and the result on a signal literally named `__v1` (not a game signal)",
    "fixed: property=C16 7e8dd8a a loop inside a function whose iterator has the name of a parameter read the parameter in every iteration",
    "fixed: property=C01 f713e4e `((i >= 2) && (s > 0)) : s` / `(k >= 2) && (s > 0)` with an int variable or loop iterator: the constant comparison became a decider row `signal-0 >= 2`, always false",
    "fixed: property=C20 837f3ec `Signal f = a > 3; Signal g = a > 3; lamp.enable = g;`: the shared decider was inlined into the lamp and removed; f's output anchor dangled (read nothing)",
    "fixed: property=C04 f4494a5 arithmetic feedback loop with a same-typed computed addend and an early reader: the reverse lookup entry of the loop's fan-out overwrote the colour of the forward edge, the adder read one operand twice (found on the thorough tier)",
    "fixed: property=C15 78890c4 `func g(Signal x) { Signal p = x | \"signal-B\"; return p + x; }` with a computed argument: the projection was folded into the argument's combinator, the second use of x read nothing",
    "fixed: property=C20 75f14f2 names declared with the same expression as an earlier place() coordinate (`place(.., s * 2, ..); Signal n0 = s * 2; Signal n1 = s * 2;`) lost their output anchors: the shared node stayed flagged as a compile-time-only value",
    "fixed: property=C20 07c94da `Signal off = s + 2; place(.., off, 0); Signal y = off * 3;`: using a named signal as a coordinate suppressed its combinator, later readers of it read nothing",
    "fixed: property=C06 73d131d two-chest balanced loader (`total = {c0.output, c1.output}; avg = total / -2; d_i = {c_i.output, avg}; ins_i.enable = any(d_i) > 0`): the colours of a source in two transitively related merges were assigned in string order of the merge ids (`wire_merge_10` < `wire_merge_7`), the direct chest wire took the colour of the average, all chests and inserters became one network",
    "fixed: property=C06 7043904 `belt.enable = s > 0; Bundle r = belt.output; lamp.enable = any(r) > 5; Signal u = s * 2;`: the operand wire into the belt and the wire reading its contents shared one colour on the belt's single connector, so the lamp counted s (and u's combinator saw the belt contents)",
    "fixed: property=C10 0d0dfca `func f(Signal p, Signal c) { Signal q = p * 2; Signal r = (p > 3 && c > 1) : 1; return q + r; }` called with a literal: constant propagation folded q and dropped the constant p although the two-row decider (likewise a wire merge, memory write or entity condition) still read it; optimised result 10, unoptimised 11",
    "fixed: property=C20 f2407a4 `Bundle b = {a, k} * 2;` (any bundle operation whose left operand is a bundle literal or bundle variable): the each-combinator computing b was described as `[file] b (*)` without the declaration line",
    "fixed: property=C15 2260f4a `func f(Signal s, Entity e) { Signal loc = s * 3; e.enable = loc > 10; return loc; }` with `Signal y = f(a, lamp) | \"signal-B\";`: the caller's projection was folded into loc's combinator although the lamp's condition (or a second local) already read loc on its own type; the lamp compared a signal nothing produced",
    "fixed: property=C15 dcc7141 a callee's `Memory m: \"signal-N\"` next to the caller's `Memory m: \"signal-M\"`: memory information was kept by name only and not restored after the inlined call, so the caller's cell took the callee's type (spurious type mismatch) and the caller's later m.read() read the callee's cell",
    "fixed: property=C09 1c8a0f0 a program of more than 500 entities with two separate circuits (or unconnected placed entities, or --power-poles small on a large program): the layout solver's component decomposition shifted every component after the first along x, and put a component it could not solve on a plain grid row, including place()d entities and grid poles; user entities ended up tens to hundreds of tiles from their coordinates",
    "fixed: property=C02 45b14ca `Bundle x = ((m1 == 4) : r) / m1;` (a gated bundle divided by the scalar that also drives the gate): the each-operand read both wire colours and counted m1 among the bundle's members; the colour lookup added in 7043904 took every recorded entry between the two combinators, including a spanning-tree hop of m1's own fan-out (regression of that fix, found by the thorough tier of C02)",
    "fixed: property=C15 ef30f0b `func inner(Signal s) { Signal x = s * 2; return x + 1; } func outer(Signal x) { return inner(x + 5); }`: while inner was inlined the outer function's parameter x stayed visible and was looked up before inner's local x; outer(a) returned a + 1 instead of (a + 5) * 2 + 1 (found through a sub-agent's side remark, C01f)",
    "fixed: property=C01 88e73b8 `(a > 2 && b < 9) : 4` with a and b two inputs on one signal type: the rows of the folded multi-condition decider carried no network selection, so each row compared the sum of both inputs although they arrive on different wire colours (found through a sub-agent's side remark, C01f)",
    "fixed: property=C01 832242e `(c : k) && x` / `(c : k) || (d : j)` with constants other than 0/1 took the boolean shortcut (x*y, (x+y)>0) and yielded k or 0 instead of 1",
    "fixed: property=C01 7701d37 a comparison with an integer literal on the left (`3 < a`) was emitted as `signal-0 < a`",
]


def add(prop, fid, what, mechanism, c):
    FINDINGS.append({"id": fid, "property": prop, "what": what, "mechanism": mechanism, "case": c})


def witness(name):
    import os

    with open(os.path.join(os.path.dirname(os.path.dirname(os.path.abspath(__file__))), "witnesses", name + ".json")) as f:
        return json.load(f)


# ---- C01
add("C01", K1, K1_WHAT, "K1",
    case([["input", "i0", "advanced-circuit", -15], ["input", "i2", "signal-star", 84],
          ["input", "i3", "signal-lock", 48],
          ["sig", "x", ["b", "-", ["v", "i3"], ["b", "*", ["b", "-", ["v", "i0"], ["v", "i2"]], ["v", "i3"]]]]],
         "prec_pairs"))
add("C01", "C01-more-same-named-sources-than-wire-colours",
    "a combinator that reads three distinct same-named signals (`v1 <= v3 : i3`, all on one signal type) cannot "
    "be wired with two colours; the planner logs the unresolved conflict and emits a circuit that sums them",
    "plan_wire_colors reports a non-bipartite conflict graph (coloring_ok false) and one combinator has >= 3 "
    "same-named operands from distinct producers",
    case([["input", "i0", "signal-lightning", -183], ["input", "i3", "signal-left-parenthesis", 1],
          ["sig", "v0", ["c", ">=", ["v", "i3"], ["v", "i0"]]], ["sig", "v1", ["b", "+", ["v", "v0"], ["n", 2]]],
          ["sig", "v3", ["b", "*", ["v", "i3"], ["n", 3]]],
          ["sig", "v4", ["s", ["c", "<=", ["v", "v1"], ["v", "v3"]], ["v", "i3"]]]],
         "dag_same_typed"))


# ---- C02
add("C02", K1, K1_WHAT, "K1",
    case([["input", "m0", "signal-mining", 20],
          ["bun", "r", ["B", [["v", "m0"], ["t", "signal-thermometer-red", ["n", 29]]]]],
          ["bun", "e", ["bb", "+", ["v", "r"], ["n", 10]]],
          ["sig", "other", ["p", ["b", "+", ["v", "m0"], ["n", 1]], "signal-left-parenthesis"]],
          ["bun", "e2", ["bb", "*", ["B", [["v", "m0"]]], ["n", 3]]]],
         "shared_member_source"))


# ---- C03
add("C03", "C03-cell-read-and-its-data-source-both-locked-to-red",
    "`m.write(v, when=c); Signal d = v - m.read();` with v on the cell's own signal type (the \"has the value changed\" "
    "idiom): the memory module locks the cell's output and every source of its data input to the red wire, so the "
    "subtraction receives both same-named operands on red and computes (v+m) - (v+m); one (source, signal) node has one "
    "colour, so the planner cannot put v's wire to the subtraction on green; it records the unresolved conflict and goes on",
    "plan_wire_colors reports an unresolved conflict (coloring_ok false), the program has one operation whose two "
    "operands are a cell's read and a bare same-typed signal stored by that cell's write()",
    case([["input", "d0", "signal-speed", 7], ["input", "e0", "concrete", 1], ["mem", "m0", "signal-speed"],
          ["write", "m0", ["v", "d0"], ["c", ">", ["v", "e0"], ["n", 0]]],
          ["sig", "r0", ["p", ["b", "-", ["v", "d0"], ["r", "m0"]], "engine-unit"]],
          ["sig", "r1", ["p", ["r", "m0"], "signal-hourglass"]]],
         "data_meets_read", hseed=1, nhist=3, nsteps=16, edges={"d0": [0, 1, -1, 5, -7, 100], "e0": [0, 1, 1, 0, 2]}))


# ---- C04
add("C04", K1, K1_WHAT, "K1",
    dict(case([["input", "h0", "signal-left-parenthesis", 4], ["mem", "m0", "processing-unit"],
               ["sig", "s0_0", ["p", ["b", "+", ["r", "m0"], ["v", "h0"]], "processing-unit"]],
               ["sig", "s0_1", ["p", ["b", "+", ["v", "s0_0"], ["v", "h0"]], "processing-unit"]],
               ["write", "m0", ["v", "s0_1"], None],
               ["sig", "rid0", ["p", ["r", "m0"], "shape-t"]]],
              "chain", nval=1), meta=[{"mem": "m0", "chain": 2, "ids": ["rid0"]}]))


# ---- C10
add("C10", K1, K1_WHAT + " (in one build and not, or differently, in the other: which connectors get chained depends on the layout, and the two builds have different layouts)", "K1", witness("C10-K1"))


# ---- C11
add("C11", "C11-ir-level-division-floors",
    "IR-level constant propagation folds `/` with Python floor division: a constant behind a projection divided "
    "with operands of different sign and a non-zero remainder (`((\"a\", 7) | \"b\") / (-2)`) is folded to -4 while the "
    "arithmetic combinator computes -3 (optimised builds only; pinned by test_optimizer.py `_fold_arithmetic('/', -10, 3) == -4`)",
    "ConstantPropagationOptimizer._fold_arithmetic('/') uses left // right; explained exactly by the reference "
    "semantics with floor division applied to IR-level constant folds (defect model ir_floor_div)",
    dict(case([["input", "a", "water", -64],
               ["sig", "x", ["p", ["b", "+", ["v", "a"], ["b", "/", ["p", ["t", "explosives", ["n", 2147483647]], "signal-shuffle"], ["n", -2]]], "raw-fish"]]],
              "ir_level_folding", nval=3), optimize=True))


# ---- C16
add("C16", K1, K1_WHAT + " (in the loop build and not, or differently, in the unrolled one: the two builds have different layouts)", "K1", witness("C16-K1"))


# ---- C17
add("C17", "C17-cwd-file-shadows-bundled-library",
    "the import search path puts the working directory ('.' and example_programs) before the bundled library, so a "
    "file named math.facto / lib/math.facto in the directory the compiler is started from replaces the bundled "
    "library: resolution of a library import depends on the working directory",
    "resolve_import_path: FACTORIO_IMPORT_PATH default '.;example_programs;<pkg>;<repo>/lib;...' searched in order; "
    "observed as the decoy's marker value 12345 in the executed blueprint",
    {"stratum": "lib_decoy_in_cwd", "kind": "lib", "fn": "abs", "ints": [], "ntuples": 10, "decoy_cwd": True,
     "import_as": "math.facto", "vseed": 5, "sseed": 5, "pseed": 5})


# ---- C13
add("C13", K1, K1_WHAT, "K1", witness("C13-K1"))


# ---- C20
add("C20", K1, K1_WHAT, "K1",
    dict(case([["input", "i0", "iron-plate", 17], ["input", "i1", "low-density-structure", 4], ["input", "i3", "signal-damage", 9],
               ["sig", "n0", ["s", ["c", "==", ["v", "i1"], ["n", 10]], ["v", "i3"]]],
               ["sig", "n2", ["p", ["b", "-", ["v", "n0"], ["v", "i1"]], "signal-hourglass"]]],
              "mixed_names", nval=2), kinds={"i0": "input", "i1": "input", "i3": "input", "n0": "sel", "n2": "arith"},
         optimize=True))


add("C04", "C04-unbalanced-read-paths-in-the-loop",
    "a self-referential write whose expression reads the cell through paths of different combinator depth, e.g. "
    "`m.write((m.read() != 6) : (m.read() + 3))` (the decider compares this tick's value and copies last tick's sum): "
    "the compiler inserts no delay on the shorter path, so at every change of the circulating value one tick combines "
    "two different generations and the glitch stays in the loop; no L with value(t+L) = f(value(t)) exists",
    "expression lowering / memory_builder: no path balancing inside feedback loops; attributed only to cells whose "
    "written expression has a combinator with cell-dependent operands of unequal depth (skewed_cells in C04.py); "
    "balanced programs are never attributed",
    witness("C04-unbalanced-read-paths"))


# ---- C18
add("C18", "C18-no-free-tile-for-a-pole-next-to-a-consumer",
    "with --power-poles big (2x2 pole, 4x4 supply area) a consumer in a densely packed row of combinators can have no "
    "free 2x2 tile within the supply distance; the compiler warns 'No free tile for a big power pole near (x, y); the "
    "entity there stays unpowered' and emits the blueprint with that entity outside every supply area",
    "PowerPlanner.complete_power_grid: the coverage pass runs after the layout and cannot move entities; attributed "
    "only to uncovered entities whose position the compiler's own warning names (any other uncovered consumer, and "
    "any split grid, is a violation)",
    witness("C18-no-free-tile-for-a-pole-next-to-a-consumer"))


# ---- C11 (the const_to_input twin adds an input next to the constant's consumers)
add("C11", K1, K1_WHAT + "; seen in the twin build of C11, where the constant operand is an input", "K1", witness("C11-K1"))


# ---- C12
add("C12", K1, K1_WHAT + "; which connectors get chained depends on the layout, so a component hit by it can behave "
    "differently alone and inside a larger program", "K1", witness("C12-K1"))


def main():
    print(json.dumps({"findings": FINDINGS, "fixed": FIXED}, indent=1))


if __name__ == "__main__":
    main()
