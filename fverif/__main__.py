import sys


def main():
    argv = sys.argv[1:]
    if not argv:
        print("usage: check <Cxx> --tier quick|thorough [--replay path] | check --setup")
        return 3
    if argv[0] == "--setup":
        from . import selftest

        return selftest.main()
    from . import runner

    return runner.main(argv[0], argv[1:])


if __name__ == "__main__":
    sys.exit(main())
