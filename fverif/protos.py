"""Prototype data from the game data shipped with draftsman (DESIGN.md 2.2)."""
from __future__ import annotations

import math
from functools import lru_cache

POLE_TYPES = {"small": "small-electric-pole", "medium": "medium-electric-pole",
              "big": "big-electric-pole", "substation": "substation"}


@lru_cache(maxsize=None)
def raw(name):
    from draftsman.data import entities

    return entities.raw.get(name) or {}


def tile_size(name):
    r = raw(name)
    w, h = r.get("tile_width"), r.get("tile_height")
    if w is not None and h is not None:
        return max(1, int(w)), max(1, int(h))
    cb = r.get("collision_box")
    if cb:
        return (max(1, math.ceil(cb[1][0] - cb[0][0])), max(1, math.ceil(cb[1][1] - cb[0][1])))
    return (1, 1)


def collision_box(name, direction=0):
    """((x0,y0),(x1,y1)) relative to the entity position, rotated by direction
    (Factorio 2.0 directions: 0 north, 4 east, 8 south, 12 west)."""
    r = raw(name)
    cb = r.get("collision_box") or [[-0.4, -0.4], [0.4, 0.4]]
    (x0, y0), (x1, y1) = cb
    d = (direction or 0) % 16
    if d == 4:
        x0, y0, x1, y1 = -y1, x0, -y0, x1
    elif d == 8:
        x0, y0, x1, y1 = -x1, -y1, -x0, -y0
    elif d == 12:
        x0, y0, x1, y1 = y0, -x1, y1, -x0
    return ((x0, y0), (x1, y1))


def wire_reach(name):
    r = raw(name)
    for k in ("circuit_wire_max_distance", "maximum_wire_distance", "wire_max_distance"):
        v = r.get(k)
        if v:
            return float(v)
    return 0.0


def copper_reach(name):
    r = raw(name)
    for k in ("maximum_wire_distance", "wire_max_distance"):
        v = r.get(k)
        if v:
            return float(v)
    return 0.0


def supply_distance(name):
    return float(raw(name).get("supply_area_distance") or 0.0)


def is_pole(name):
    return raw(name).get("type") == "electric-pole"


def is_electric_consumer(name):
    es = raw(name).get("energy_source") or {}
    return es.get("type") == "electric" and raw(name).get("type") != "electric-pole"


def connectors(name):
    t = raw(name).get("type")
    if t in ("arithmetic-combinator", "decider-combinator", "selector-combinator"):
        return {1, 2, 3, 4}
    if t == "electric-pole":
        return {1, 2, 5}
    if t == "power-switch":
        return {1, 2, 5, 6}
    return {1, 2}


def is_known_signal(name: str) -> bool:
    """True when draftsman's shipped game data knows the signal name."""
    from draftsman.data import signals as signal_data

    return name in signal_data.raw
