"""Monitors attached from the harness to the real compiler functions (DESIGN.md 2.4).

Each monitor wraps the object at its definition site and at the known importing sites,
records events, and never raises into the compiler (record and return)."""
from __future__ import annotations

import functools

from . import driver
from .fsim import arith, compare, w32

FOLD_LOG: list = []
ALLOC_LOG: list = []
LOOP_LOG: list = []
IMPORT_LOG: list = []
DIAG_LOG: list = []
INLINE_LOG: list = []
RELAY_LOG: list = []

_attached = set()


def _model_fold(op, l, r):
    """int32 reference for a fold call, or None when the model leaves it open."""
    notes = set()
    if op in ("+", "-", "*", "/", "%", "<<", ">>", "AND", "OR", "XOR", "**", "^"):
        v = arith("^" if op == "**" else op, w32(l), w32(r), notes)
        if notes:
            return None
        return v
    if op in ("==", "!=", "<", "<=", ">", ">="):
        return 1 if compare(op, l, r) else 0
    if op == "&&":
        return 1 if (l != 0 and r != 0) else 0
    if op == "||":
        return 1 if (l != 0 or r != 0) else 0
    return None


def attach_fold_monitor():
    if "fold" in _attached:
        return
    driver.setup()
    from dsl_compiler.src.ir import optimizer as opt_mod
    from dsl_compiler.src.lowering import constant_folder as cf_mod

    CF = cf_mod.ConstantFolder
    orig = CF.__dict__["fold_binary_operation"].__func__

    def fold_binary_operation(op, left, right, node, diagnostics=None):
        res = orig(op, left, right, node, diagnostics)
        try:
            exp = _model_fold(op, left, right)
            rec = {"site": "ast", "op": op, "l": left, "r": right, "result": res}
            if exp is not None and res is not None and res != exp:
                rec["suspect"] = True
                rec["expected"] = exp
            FOLD_LOG.append(rec)
        except Exception:  # noqa: BLE001
            pass
        return res

    CF.fold_binary_operation = staticmethod(fold_binary_operation)

    CP = opt_mod.ConstantPropagationOptimizer
    orig_a = CP._fold_arithmetic

    @functools.wraps(orig_a)
    def _fold_arithmetic(self, op, left, right):
        res = orig_a(self, op, left, right)
        try:
            exp = _model_fold(op, left, right)
            rec = {"site": "ir", "op": op, "l": left, "r": right, "result": res}
            if exp is not None and res is not None and res != exp:
                rec["suspect"] = True
                rec["expected"] = exp
            FOLD_LOG.append(rec)
        except Exception:  # noqa: BLE001
            pass
        return res

    CP._fold_arithmetic = _fold_arithmetic
    _attached.add("fold")


def attach_loop_monitor():
    """ForStmt.get_iteration_values: every expansion equals the documented sequence (C16)."""
    if "loop" in _attached:
        return
    driver.setup()
    from dsl_compiler.src.ast import statements as st_mod

    from . import lang

    FS = st_mod.ForStmt
    orig = FS.get_iteration_values

    @functools.wraps(orig)
    def get_iteration_values(self, constant_resolver=None):
        vals = orig(self, constant_resolver)
        try:
            if self.values is not None:
                exp = list(self.values)
                rec = {"kind": "list", "values": list(vals)}
            else:
                def res(x):
                    if isinstance(x, int) or x is None:
                        return x
                    return constant_resolver(x)

                a, b, st = res(self.start), res(self.stop), res(self.step)
                rec = {"kind": "range", "start": a, "stop": b, "step": st, "values": list(vals)}
                if st is None and a is not None and b is not None and a > b:
                    exp = None  # descending range without a step: the property does not fix it
                elif st == 0:
                    exp = None
                else:
                    exp = lang.loop_values(["range", a, b, st])
            if exp is not None and list(vals) != exp:
                rec["suspect"] = True
                rec["expected"] = exp
            LOOP_LOG.append(rec)
        except Exception:  # noqa: BLE001
            pass
        return vals

    FS.get_iteration_values = get_iteration_values
    _attached.add("loop")
