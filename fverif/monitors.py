"""Monitors attached from the harness to the real compiler functions (DESIGN.md 2.4).

Each monitor wraps the object at its definition site and at the known importing sites,
records events, and never raises into the compiler (record and return)."""
from __future__ import annotations

import functools

from . import driver
from .fsim import arith, compare, w32

FOLD_LOG: list = []
ALLOC_LOG: list = []
LOOP_LOG: list = []
IMPORT_LOG: list = []
DIAG_LOG: list = []
INLINE_LOG: list = []
RELAY_LOG: list = []

_attached = set()


def _model_fold(op, l, r):
    """int32 reference for a fold call, or None when the model leaves it open."""
    notes = set()
    if op in ("+", "-", "*", "/", "%", "<<", ">>", "AND", "OR", "XOR", "**", "^"):
        v = arith("^" if op == "**" else op, w32(l), w32(r), notes)
        if notes:
            return None
        return v
    if op in ("==", "!=", "<", "<=", ">", ">="):
        return 1 if compare(op, l, r) else 0
    if op == "&&":
        return 1 if (l != 0 and r != 0) else 0
    if op == "||":
        return 1 if (l != 0 or r != 0) else 0
    return None


def attach_fold_monitor():
    if "fold" in _attached:
        return
    driver.setup()
    from dsl_compiler.src.ir import optimizer as opt_mod
    from dsl_compiler.src.lowering import constant_folder as cf_mod

    CF = cf_mod.ConstantFolder
    orig = CF.__dict__["fold_binary_operation"].__func__

    def fold_binary_operation(op, left, right, node, diagnostics=None):
        res = orig(op, left, right, node, diagnostics)
        try:
            exp = _model_fold(op, left, right)
            rec = {"site": "ast", "op": op, "l": left, "r": right, "result": res}
            if exp is not None and res is not None and res != exp:
                rec["suspect"] = True
                rec["expected"] = exp
            FOLD_LOG.append(rec)
        except Exception:  # noqa: BLE001
            pass
        return res

    CF.fold_binary_operation = staticmethod(fold_binary_operation)

    CP = opt_mod.ConstantPropagationOptimizer
    orig_a = CP._fold_arithmetic

    @functools.wraps(orig_a)
    def _fold_arithmetic(self, op, left, right):
        res = orig_a(self, op, left, right)
        try:
            exp = _model_fold(op, left, right)
            rec = {"site": "ir", "op": op, "l": left, "r": right, "result": res}
            if exp is not None and res is not None and res != exp:
                rec["suspect"] = True
                rec["expected"] = exp
            FOLD_LOG.append(rec)
        except Exception:  # noqa: BLE001
            pass
        return res

    CP._fold_arithmetic = _fold_arithmetic
    _attached.add("fold")


def attach_loop_monitor():
    """ForStmt.get_iteration_values: every expansion equals the documented sequence (C16)."""
    if "loop" in _attached:
        return
    driver.setup()
    from dsl_compiler.src.ast import statements as st_mod

    from . import lang

    FS = st_mod.ForStmt
    orig = FS.get_iteration_values

    @functools.wraps(orig)
    def get_iteration_values(self, constant_resolver=None):
        vals = orig(self, constant_resolver)
        try:
            if self.values is not None:
                exp = list(self.values)
                rec = {"kind": "list", "values": list(vals)}
            else:
                def res(x):
                    if isinstance(x, int) or x is None:
                        return x
                    return constant_resolver(x)

                a, b, st = res(self.start), res(self.stop), res(self.step)
                rec = {"kind": "range", "start": a, "stop": b, "step": st, "values": list(vals)}
                if st is None and a is not None and b is not None and a > b:
                    exp = None  # descending range without a step: the property does not fix it
                elif st == 0:
                    exp = None
                else:
                    exp = lang.loop_values(["range", a, b, st])
            if exp is not None and list(vals) != exp:
                rec["suspect"] = True
                rec["expected"] = exp
            LOOP_LOG.append(rec)
        except Exception:  # noqa: BLE001
            pass
        return vals

    FS.get_iteration_values = get_iteration_values
    _attached.add("loop")


def attach_inline_monitor():
    """ExpressionLowerer.lower_function_call_inline: caller state restored exactly after each call;
    MemoryLowerer.lower_mem_decl: one fresh memory id per executed declaration (C15)."""
    if "inline" in _attached:
        return
    driver.setup()
    from dsl_compiler.src.lowering import expression_lowerer as el_mod
    from dsl_compiler.src.lowering import memory_lowerer as ml_mod

    EL = el_mod.ExpressionLowerer
    orig = EL.lower_function_call_inline
    depth = [0]

    @functools.wraps(orig)
    def lower_function_call_inline(self, expr):
        p = self.parent
        before_params = dict(p.param_values)
        before_signals = dict(p.signal_refs)
        before_entities = dict(p.entity_refs)
        depth[0] += 1
        try:
            res = orig(self, expr)
        finally:
            depth[0] -= 1
        try:
            rec = {"func": getattr(expr, "name", "?"), "depth": depth[0] + 1}
            bad = []
            if dict(p.param_values) != before_params:
                bad.append("param_values not restored")
            if {k: id(v) for k, v in p.signal_refs.items()} != {k: id(v) for k, v in before_signals.items()}:
                changed = [k for k in set(p.signal_refs) | set(before_signals)
                           if p.signal_refs.get(k) is not before_signals.get(k)]
                bad.append("signal_refs changed: %s" % sorted(changed)[:5])
            clobbered = [k for k, v in before_entities.items() if p.entity_refs.get(k) != v]
            if clobbered:
                bad.append("caller entity names rebound by the callee: %s" % sorted(clobbered)[:5])
            if bad:
                rec["suspect"] = True
                rec["problems"] = bad
            INLINE_LOG.append(rec)
        except Exception:  # noqa: BLE001
            pass
        return res

    EL.lower_function_call_inline = lower_function_call_inline

    ML = ml_mod.MemoryLowerer
    orig_decl = ML.lower_mem_decl
    seen_ids = {}

    @functools.wraps(orig_decl)
    def lower_mem_decl(self, stmt):
        r = orig_decl(self, stmt)
        try:
            mid = self.parent.memory_refs.get(stmt.name)
            key = id(self.ir_builder)
            ids = seen_ids.setdefault(key, set())
            rec = {"memdecl": stmt.name, "id": mid}
            if mid in ids:
                rec["suspect"] = True
                rec["problems"] = ["memory id %s re-used by a second executed declaration" % mid]
            ids.add(mid)
            if len(seen_ids) > 8:
                for k in list(seen_ids)[:-4]:
                    seen_ids.pop(k, None)
            INLINE_LOG.append(rec)
        except Exception:  # noqa: BLE001
            pass
        return r

    ML.lower_mem_decl = lower_mem_decl
    _attached.add("inline")


def attach_import_monitor():
    """preprocess_imports / resolve_import_path: resolved paths, how often each file's text is
    inlined, number of expansion calls (C17)."""
    if "imports" in _attached:
        return
    driver.setup()
    import re

    from dsl_compiler.src.parsing import parser as parser_mod
    from dsl_compiler.src.parsing import preprocessor as pp_mod

    orig_pp = pp_mod.preprocess_imports
    orig_res = pp_mod.resolve_import_path
    depth = [0]

    def resolve_import_path(import_path, base_path=None):
        r = orig_res(import_path, base_path)
        try:
            import os

            IMPORT_LOG.append({"resolve": str(import_path), "base": str(base_path), "to": str(r), "cwd": os.getcwd()})
        except Exception:  # noqa: BLE001
            pass
        return r

    def preprocess_imports(source_code, base_path=None, processed_files=None):
        depth[0] += 1
        try:
            out = orig_pp(source_code, base_path, processed_files)
        finally:
            depth[0] -= 1
        try:
            rec = {"expand": True, "depth": depth[0]}
            if depth[0] == 0:
                marks = re.findall(r"^# --- Imported from (.*) ---$", out, flags=re.M)
                cnt = {}
                for m in marks:
                    cnt[m] = cnt.get(m, 0) + 1
                rec["inlined"] = cnt
                if any(v > 1 for v in cnt.values()):
                    rec["suspect"] = True
                    rec["problems"] = ["file text inlined more than once: %s" % {k: v for k, v in cnt.items() if v > 1}]
            IMPORT_LOG.append(rec)
        except Exception:  # noqa: BLE001
            pass
        return out

    pp_mod.resolve_import_path = resolve_import_path
    pp_mod.preprocess_imports = preprocess_imports
    parser_mod.preprocess_imports = preprocess_imports
    _attached.add("imports")


def attach_alloc_monitor():
    """SignalAnalyzer._allocate_factorio_virtual_signal: every compiler-chosen name (C13)."""
    if "alloc" in _attached:
        return
    driver.setup()
    from dsl_compiler.src.layout import signal_analyzer as sa_mod

    SA = sa_mod.SignalAnalyzer
    orig = SA._allocate_factorio_virtual_signal

    @functools.wraps(orig)
    def _allocate_factorio_virtual_signal(self):
        name = orig(self)
        try:
            ALLOC_LOG.append({"name": name, "index": self._signal_pool_index, "pool": len(self._available_signal_pool),
                              "wrapped": bool(self._warned_signal_reuse)})
        except Exception:  # noqa: BLE001
            pass
        return name

    SA._allocate_factorio_virtual_signal = _allocate_factorio_virtual_signal
    _attached.add("alloc")


def attach_diag_monitor():
    """ProgramDiagnostics.error / warning: every diagnostic with stage and message (C14)."""
    if "diag" in _attached:
        return
    driver.setup()
    from dsl_compiler.src.common import diagnostics as dg_mod

    PD = dg_mod.ProgramDiagnostics
    orig_err = PD.error

    @functools.wraps(orig_err)
    def error(self, message, *a, **k):
        try:
            DIAG_LOG.append({"severity": "error", "stage": k.get("stage") or getattr(self, "default_stage", None),
                             "message": str(message)[:400]})
        except Exception:  # noqa: BLE001
            pass
        return orig_err(self, message, *a, **k)

    PD.error = error
    _attached.add("diag")
