#!/usr/bin/env python3
"""Regenerate section 8 (build report) of DESIGN.md from known_findings.json, seeded/*/meta.json and evidence/*.json.

usage: /venv/bin/python tools/mk_design_report.py      (rewrites everything from the '## 8.' heading on)"""
import glob
import json
import os
import re
import subprocess

V = os.path.dirname(os.path.dirname(os.path.abspath(__file__)))
MARK = "## 8. Build report"

STATIC_FINDINGS = {
    "K1-transitive-network-merge": (
        "**K1 - transitive same-colour network merge** ({K1PROPS}). A circuit network is the "
        "transitive closure of same-colour wires over connectors; the planner's conflict graph only separates same-named "
        "signals that are direct sources of one sink, and MST fan-out chains readers of one source through each other's "
        "input connectors. A combinator can therefore read a same-named signal it was never meant to read (2.8.1). "
        "Witness: `x = i3 - (i0 - i2) * i3`. Not repaired: needs a global (network-level) colouring or buffer insertion, "
        "not a small patch. Attribution: logical (directed-delivery) execution of the planner's own edge list gives the "
        "reference values, the physical execution does not, and the emitted partition equals the closure of the planned "
        "wires. Anything else - logical execution failing too, or the emitted partition differing from the planned one - "
        "is a VIOLATION. Clean strata project every operator node onto its own signal type and are immune."),
    "C01-more-same-named-sources-than-wire-colours": (
        "**More same-named sources than wire colours** (C01). `v4 = v1 <= v3 : i3` with v1, v3, i3 on one signal type needs "
        "three colours; the planner logs the unresolved conflict and emits a circuit that sums two of them (and, after the "
        "colouring fix, may not settle). Not repaired: needs a buffer combinator inserted by the planner. Attribution: "
        "`coloring_ok` is false in the plan monitor AND one combinator of the program reads >= 3 distinct same-named "
        "sources (structural predicate on the description)."),
    "C04-unbalanced-read-paths-in-the-loop": (
        "**Unbalanced read paths inside a feedback loop** (C04). `m.write((m.read() != 6) : (m.read() + 3))`: the decider "
        "compares this tick's value and copies last tick's sum; no delay is inserted on the shorter path, so whenever the "
        "circulating value changes one tick combines two generations and the glitch stays in the loop. No L with "
        "value(t+L) = f(value(t)) exists. Not repaired: needs path balancing in lowering. Attribution: only cells whose "
        "written expression contains a combinator with cell-dependent operands of unequal depth (`skewed_cells`); "
        "balanced programs are never attributed."),
    "C11-ir-level-division-floors": (
        "**IR-level constant propagation floors `/`** (C11). `ConstantPropagationOptimizer._fold_arithmetic('/')` uses "
        "`left // right` where the combinators truncate toward zero. The one-line repair is pinned by the repository's own "
        "test (`test_optimizer.py:49` asserts `-10 / 3 == -4`), so the unedited suite would fail: listed. Attribution by "
        "defect model: the reference interpreter re-run with floor division applied to exactly the IR-level folds must "
        "reproduce the observed value; any other deviation is a VIOLATION."),
    "C17-cwd-file-shadows-bundled-library": (
        "**A file in the working directory shadows the bundled library** (C17). The default import path searches `.` first, "
        "so `import \"math.facto\"` resolves to `./math.facto` of whatever directory the compiler is started from. The "
        "resolution order is documented behaviour of `FACTORIO_IMPORT_PATH` and changing it would break programs that rely "
        "on it: listed. Attribution: only the dedicated decoy stratum, whose decoy returns the marker 12345."),
    "C18-no-free-tile-for-a-pole-next-to-a-consumer": (
        "**No free tile for a 2x2 pole next to a consumer** (C18). After the power-grid repairs (8.2) every consumer gets "
        "a pole after the layout - except that `big` poles (2x2, 4x4 supply area) may find no free 2x2 tile within two "
        "tiles of a consumer in a densely packed row. The compiler warns `No free tile for a big power pole near (x, y); "
        "the entity there stays unpowered`. Not repaired: needs the layout to reserve space. Attribution: only uncovered "
        "entities whose position the compiler's own warning names; any other uncovered consumer, and any split grid, is a "
        "VIOLATION."),
    "C03-cell-read-and-its-data-source-both-locked-to-red": (
        "**A cell's read and its own data source in one consumer are both locked to red** (C03). `m.write(v, when=c); "
        "Signal d = v - m.read();` with v on the cell's signal type (the \"has it changed\" idiom): the memory module "
        "locks the cell's output and every source of its data input to the red wire, one (source, signal) node has one "
        "colour, so the subtraction receives both same-named operands on red and computes (v+m) - (v+m). "
        "`plan_wire_colors` records the conflict as unresolved and the compiler goes on without a user-visible "
        "diagnostic. Not repaired: it needs edge-level colours for non-merge edges or an isolating combinator whose "
        "extra tick changes the timing of feedback expressions that the arithmetic-feedback optimisation pattern-matches. "
        "Found through a sub-agent's side remark (C03e). Attribution: the compiler's own report (`coloring_ok` false) "
        "AND the structural scope predicate `data_meets_read` (one operation whose operands are a cell's read and a "
        "bare same-typed signal stored by that cell's write); everything else in C03 is a VIOLATION."),
}

FALSE_ALARMS = [
    "C10 (thorough tier, `Signal v3 = i0 > v2 : v1` with all three on one signal type): the optimised build was also compared with the reference semantics, and a deviation that the unoptimised build shares (here the listed three-colour finding of C01) was reported as a C10 violation. The property compares the two builds; a deviation common to both is now recorded as `common_deviation` and left to C01 / C02 (same treatment as C13).",
    "C06 (new stratum entity_controlled_and_read): the harness gave contents to every belt / inserter of a case, also to plain sinks that do not read their contents; and it let the condition's operand have the type of an item the entity holds - a single-connector entity always reads its own output, which no wiring can prevent. Contents are now emitted only for entities the program reads through `.output`, and the operand type is never one the entity holds.",
    "C08 / C18 thorough: `biggen.mixed_program` crashed with `type pool exhausted` for large programs (a check that exits non-zero is broken): the memory loop now restarts the pool like the statement loop did.",
    "C11 (function_argument in a loop): the result was declared inside the loop body and is not observable by name; the loop variant now drives a lamp.",
    "C06: the entity cross-check compared the enable signal's value on the wire with the reference even when the comparison result shares its type with a memory signal; restricted to non-comparison enables.",
    "C02 / C20: `Bundle r = { m0 }` relabels the input's combinator, so the declared input cannot be driven by its label: such cases are `inconclusive (undrivable)`, and the generators avoid the single-input literal.",
    "C05: a generator type mismatch (value type != cell type) produced rejections, not violations; values are now projected onto the cell type.",
    "C03 / C05: an input that feeds both the data and a falling enable races legitimately; the reference returns the set of acceptable values for that step; enables that go negative are `unspecified`.",
    "C12: anonymous `bundle_const_N` labels, free-running counters and the global `settled` flag differ legitimately between the joint and the alone build; they are not compared per component.",
    "C13: programs larger than the relay budget under the `first` schedule failed layout (vacuous); sizes reduced on the quick tier, `default` schedule for the large ones.",
    "C20: a start-up transient latched through unequal path depths into a memory; memory data / enable now read the inputs directly.",
    "C07: descriptions carry `[<source name>:<line>]`; the source name legitimately differs between `-i`, a file and the in-process reference and is erased before comparing canonical forms.",
    "C09: `direction: 0` (north) is not exported; normalised away before comparing static properties.",
    "C13: a bundle literal containing an implicitly typed member legitimately shows a different member name in the renamed twin; removed from the stratum (the reference reports it as unspecified).",
    "C14: `zzf(int n)` called with a Signal is documented as legal coercion, and `step 1 - 1` is a syntax error, not a zero step: both variants removed; 'Unknown entity' added to the accepted wording.",
    "C16: a name declared at top level and again in a loop body labels two entities; the ambiguous label is not used for the reference comparison (the value is compared through a later reader).",
    "C01: after the colouring repair the old witness of the three-colour finding was attributed to a different mechanism; witness replaced by one that contains only the three-colour pattern.",
    "C15 twin: `inline_calls` substituted a parameter also inside a loop whose iterator has the parameter's name (the iterator shadows it); the twin transformer now respects the shadowing.",
    "C11 thorough: the const_to_input twin build of a few cases is hit by K1 (stage classification: logical passes, physical fails, emitted = planned partition); K1 is now listed for C11 with such a case as witness.",
    "`fail(k)` schedule: returning UNKNOWN without solving made OR-tools raise; now a real solve with a vanishing budget.",
]


def fix_count():
    try:
        out = subprocess.run(["git", "-C", "/repo", "log", "--format=%s"], capture_output=True, text=True).stdout
        return len([ln for ln in out.splitlines() if ln.startswith("fix:")])
    except Exception:  # noqa: BLE001
        return None


def main():
    kf = json.load(open(os.path.join(V, "known_findings.json")))
    out = [MARK, ""]
    out.append("Generated by `tools/mk_design_report.py` from `known_findings.json`, `seeded/*/meta.json` and the evidence "
               "files of the last quick run on the final tree; the prose parts are maintained in that script.")
    out.append("")
    # 8.1
    out.append("### 8.1 What each check observed on the final tree (quick tier, VERIF_SEED=0)")
    out.append("")
    out.append("| id | level | cases | held | listed | vacuous / inconclusive | evaluations | distinct non-trivial | monitor events |")
    out.append("|---|---|---|---|---|---|---|---|---|")
    for p in sorted(glob.glob(os.path.join(V, "evidence", "C*.json"))):
        e = json.load(open(p))
        c = e.get("coverage", {})
        cs = c.get("cases", {})
        mon = ", ".join("%s %s" % (k, v) for k, v in (c.get("monitor_events") or {}).items())
        out.append("| %s | %s | %s | %s | %s | %s / %s | %s | %s | %s |" % (
            e["property_id"], e.get("level"), cs.get("cases"), cs.get("held", 0), cs.get("known", 0),
            cs.get("vacuous", 0), cs.get("inconclusive", 0), c.get("evaluations"), c.get("distinct_nontrivial"), mon))
    out.append("")
    out.append("`held` means: the oracle compared and found nothing on these executions - nothing more. `listed` cases reproduced a "
               "listed finding (8.3) and are printed as KNOWN-FINDING lines. The thorough tiers run the same generators with "
               "10-20x the cases, more valuations / histories / schedules and the large program sizes.")
    out.append("")
    th = sorted(glob.glob(os.path.join(V, "evidence", "thorough", "C*.json")))
    if th:
        out.append("Thorough tier (VERIF_SEED=0, one run per property, copies of the evidence files in `evidence/thorough/`). "
                   "The sweep ran while the last fixes were still being made: C07 ran on /repo `f2407a4`, C12 on `dcc7141`, "
                   "C08 on `dcc7141`/`1c8a0f0`, C09 C18 C19 on `45b14ca`; the last two fixes (`ef30f0b` parameter scope of nested "
                   "calls, `88e73b8` wire selection of decider rows) came after that, and the checks of everything they touch "
                   "(C01 C02 C03 C04 C05 C06 C10 C11 C15 C16 C20) were re-run on the final HEAD `88e73b8`. The first pass "
                   "found three things the quick tier had not: the layout decomposition moving placed entities (C18, fixed "
                   "`1c8a0f0`), a regression of my own fix `7043904` (C02, fixed `45b14ca`) and a false alarm of C10 (8.5); "
                   "it also crashed C08 / C18 in a generator (8.5). Quick tiers were additionally run with VERIF_SEED 1, 2, 3 "
                   "(`PYTHONHASHSEED=0`, fresh processes): no violation; and the thorough tier of 14 checks with VERIF_SEED=1 "
                   "(`evidence/thorough/seed1_summary.txt`): no violation.")
        out.append("")
        out.append("| id | cases | held | listed | vacuous / inconclusive | skipped (budget) | evaluations | distinct non-trivial | wall s | verdict |")
        out.append("|---|---|---|---|---|---|---|---|---|---|")
        for p in th:
            e = json.load(open(p))
            c = e.get("coverage", {})
            cs = c.get("cases", {})
            out.append("| %s | %s | %s | %s | %s / %s | %s | %s | %s | %s | %s |" % (
                e["property_id"], cs.get("cases"), cs.get("held", 0), cs.get("known", 0), cs.get("vacuous", 0),
                cs.get("inconclusive", 0), cs.get("skipped", 0), c.get("evaluations"), c.get("distinct_nontrivial"),
                e.get("wall_s", ""), "held" if not e.get("violations") else "%s violation(s)" % e["violations"]))
        out.append("")
    # 8.2
    fixed = kf.get("fixed", [])
    out.append("### 8.2 Genuine defects repaired (%d `fix:` commits in /repo, %d records)" % (fix_count() or 0, len(fixed)))
    out.append("")
    out.append("Every one was first reported by a check on the unchanged tree, reproduced by hand against the real compiler "
               "(`tools/run_src.py` prints what every labelled anchor reads in the physical and in the logical execution), "
               "repaired by a minimal unguarded commit whose message starts `fix:`, and is recorded in "
               "`known_findings.json` as a `fixed:` line (which suppresses nothing). Grouped by property:")
    out.append("")
    by = {}
    for f in fixed:
        m = re.match(r"fixed: property=(C\d\d) (\S+) (.*)", f)
        if m:
            by.setdefault(m.group(1), []).append((m.group(2), m.group(3)))
    for prop in sorted(by):
        out.append("* **%s**" % prop)
        for h, what in by[prop]:
            out.append("  * `%s` %s" % (h, what))
    out.append("")
    out.append("Several of these were found only after a seeded change (8.4) or a sub-agent's side remark showed that a "
               "generator was too narrow: widening the workload (near-boolean operands of `&&`/`||`, compositional bundle "
               "expressions, comparison-based loop bodies, non-square rotations, bundle literals at the head of the "
               "allocation pool, shadowed loop names, `any()/all()` with signal thresholds) immediately exposed defects "
               "that the unchanged tree had all along.")
    out.append("")
    # 8.3
    out.append("### 8.3 Listed findings (genuine, not repaired)")
    out.append("")
    seen = []
    for f in kf["findings"]:
        if f["id"] not in seen:
            seen.append(f["id"])
    k1props = ", ".join(sorted({x["property"] for x in kf["findings"] if x["id"].startswith("K1")}))
    for fid in seen:
        out.append("* " + STATIC_FINDINGS.get(fid, "**%s** - %s" % (fid, next(x["what"] for x in kf["findings"] if x["id"] == fid))).replace("{K1PROPS}", k1props))
    out.append("")
    out.append("Each listed finding has a witness case that is re-run at the start of every run of its property; the "
               "KNOWN-FINDING line is printed only while the witness (or an attributed random case) still fails. A "
               "finding that stops reproducing shows up as `witness_not_reproduced` and is then removed from the list "
               "(this happened to `C01-merge-member-reused-by-same-sink`, repaired as a side effect of `41e079a`, and to "
               "the two original C18 findings, repaired by `ae4f4b2` / `52564f9`).")
    out.append("")
    # 8.4
    out.append("### 8.4 Seeded changes and the checks that catch them")
    out.append("")
    out.append("Six batches of sub-agents (a, b: all 20 properties; c, d, e, f: 10 each; 80 changes) were given only a property's text and a "
               "scratch worktree; each later batch was asked for a different kind of change (a deeper stage; an interaction of two "
               "features; a dependence on program size, statement order or names). Several agents independently chose the same "
               "change (C01a = C10e, C15d = C11d = C17d, C11e = C16e, C04d = C04f); each is kept under its own id. `first run` is what the checks did when the change was first applied; `final tree` is "
               "`tools/seeded_regress.py` re-applying the stored patch to a scratch worktree of the last /repo HEAD and "
               "running the quick tier of the named checks (exit code / number of VIOLATION lines).")
    out.append("")
    out.append("| id | property | the change | needs, to manifest | caught by | first run | final tree |")
    out.append("|---|---|---|---|---|---|---|")
    nfirst = nall = 0
    for p in sorted(glob.glob(os.path.join(V, "seeded", "*", "meta.json"))):
        m = json.load(open(p))
        if m.get("manifests_on_head") is False:
            first = "no longer breaks the property on the final tree (see `meta.json`)"
        elif "missed at first" in m["result"]:
            first = "missed; workload widened, then caught"
        else:
            first = "caught"
            nfirst += 1
        nall += 1
        last = "-"
        lp = os.path.join(os.path.dirname(p), "last_run.json")
        if os.path.exists(lp):
            lr = json.load(open(lp))
            if lr.get("applies") is False:
                last = "patch no longer applies"
            else:
                last = ", ".join("%s %d/%d" % (c, v["exit"], v["violations"]) for c, v in lr.get("checks", {}).items()) or "-"
        out.append("| %s | %s | %s | %s | %s | %s | %s |" % (m["id"], m["property"], m["change"], m["needs_to_manifest"],
                                                           ", ".join(m["caught_by"]) or "-", first, last))
    out.append("")
    out.append("%d of %d changes were caught the first time they were applied; every other one exposed a construct the "
               "workload did not contain and was caught after the stratum was added (the widened workload is what the "
               "table's `final tree` column runs). Full results (violation counts, the deciding oracle clause) are in "
               "`seeded/<id>/meta.json`. All changes pass the repository's unedited suite (confirmed per change in "
               "`confirm.json`). Replay: `tools/try_mutant.py seeded/<id>/patch.diff <checks>`." % (nfirst, nall))
    out.append("")
    # 8.5
    out.append("### 8.5 False alarms that were corrected in the machinery")
    out.append("")
    for x in FALSE_ALARMS:
        out.append("* " + x)
    out.append("")
    # 8.6
    out.append("### 8.6 What is out of reach, and deviations")
    out.append("")
    out.append(
        "* **Sanitizers, race detectors, linearizability checkers**: nothing to decide (0, no threads / native code of the "
        "project). Not used.\n"
        "* **The game itself** is not available; the circuit model is the trusted base. Its 15 self-tests run in `setup_cmd`. "
        "Constructs whose game behaviour is uncertain (shift amounts outside 0..31, negative exponents, INT_MIN / -1) are "
        "`unspecified` and suppress the comparison instead of guessing.\n"
        "* **Unbounded claims** are bounded: hold windows of 4x the measured settle time over histories of up to 40 steps "
        "(C03-C05), a step bound on import expansion (C17), traces of 12x the loop length (C04).\n"
        "* **Machine load / solver nondeterminism** (C08, C09, C12, C18, C19) is approximated by injected solver schedules "
        "(first-solution seeds, deterministic-time budgets, forced failures) plus the untouched `default` solver while 16 "
        "sibling workers saturate the cores. Layouts the real solver could reach only with other timings are not explored.\n"
        "* **`factompile`** (console script) is not installed in `/venv`; `python -c 'from dsl_compiler.cli import main; "
        "main()'` is the same entry point and is what C07 / C14 run.\n"
        "* **Paths the generators never drive** are not covered: entity kinds beyond the ~15 prototypes used, entity "
        "property reads, `.type` on parameters, very large programs (> ~400 entities), programs mixing every feature at "
        "once. The seeded campaign shows the typical failure mode of this family: a check is blind to a construct its "
        "workload does not contain (about half of the seeded changes of every batch were missed until a stratum was added, see 8.4), never to a "
        "construct it contains.\n"
        "* **Listed findings mask their own neighbourhood**: a different defect that only shows inside a K1-affected, "
        "three-colour, skewed-loop or big-pole case is attributed to the listed finding unless it changes the attribution "
        "test's outcome. Clean strata (immune by construction) carry the bulk of every workload for that reason.")
    out.append("")
    out.append("### 8.7 Running")
    out.append("")
    out.append("`./check --setup` (offline install of icontract/deal into `.deps`, model self-tests); `./check Cxx --tier quick|thorough` "
               "(`VERIF_SEED`, `VERIF_TIER` honoured; `--replay evidence/replays/<file>` re-runs one case); exit 0 held / 1 VIOLATION / 2 "
               "inconclusive. `tools/run_src.py '<facto source>' [--dump]` shows what a program's anchors read.")
    out.append("")
    p = os.path.join(V, "DESIGN.md")
    s = open(p).read()
    nfind = len({x["id"] for x in kf["findings"]})
    s = re.sub(r"\((?:\d+|@@NFIX@@) repaired defects, \d+ listed findings\)",
               "(%d repaired defects, %d listed findings)" % (len(kf.get("fixed", [])), nfind), s)
    if MARK in s:
        s = s[: s.index(MARK)]
    if not s.endswith("\n\n"):
        s = s.rstrip("\n") + "\n\n"
    open(p, "w").write(s + "\n".join(out))
    print("section 8 written:", len(out), "lines")


if __name__ == "__main__":
    main()
