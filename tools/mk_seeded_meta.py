import json, os, subprocess
M = {
 "C01a": ("C01", "CSE treats '^' (the IR's power operator) as commutative: `a ** 2` and `2 ** a` on one output type share a combinator", "optimisation on; two ** on the same operands in opposite order with the same output type", "C01 quick: missed at first (no commuted pair in any stratum); after adding the commuted_operands enumeration to C01/C10 -> C10 exit 1 (2 violations), C01 enumerates the same pairs", ["C10", "C01"]),
 "C02a": ("C02", "bundle filter sets wire separation only when the threshold's type is a member of the bundle", "(b CMP s) : out with s a signal whose type is not a member, reflexive comparator, non-zero threshold", "C02 quick exit 1, 7 violations (filter_sig_out strata)", ["C02"]),
 "C03a": ("C03", "optimiser rewrites only data_signal of IRMemWrite, not write_enable", "two gated writes whose when= conditions are the same IR node after CSE", "C03 quick missed at first; after adding multi_cell_same_enable stratum -> C03 exit 1 (21 violations), C10 history twin exit 1 (8)", ["C03", "C10"]),
 "C04a": ("C04", "arithmetic-feedback detection walks through comparison nodes", "unconditional write whose expression reads the cell only through comparisons, outermost node arithmetic", "C04 quick missed at first; after adding comparison-based loop bodies -> exit 1 (17 violations)", ["C04"]),
 "C05a": ("C05", "_invert_comparison maps <= to >= in the inlined latch's hold term", "inlined latch, reset comparison uses <=, input exactly on the boundary", "C05 quick exit 1, 9 violations (automaton + priority twin)", ["C05"]),
 "C06a": ("C06", "entity enable inlining accepts any constant output value of the comparison", "enable = (x CMP c) : k with k <= 0", "C06 quick missed at first; after adding enable_conditional_value stratum -> exit 1 (14 violations)", ["C06"]),
 "C07a": ("C07", "emitter skips a second same-colour wire between one pair of entities (ignores connector side)", "two wires between the same two combinators differing only in side (two-stage memory feedback loops)", "C07 quick exit 1 (plan completeness: planned wire missing from the export; CLI canonical form differs); C04 quick exit 1 (6, stage wiring)", ["C07", "C04"]),
 "C08a": ("C08", "relay network id keyed by signal name instead of source entity", "two same-named signals from different producers, same colour, both needing relays on nearby routes", "C08 quick exit 1 (15: emitted wiring joins planned networks); C12 quick exit 1 (36)", ["C08", "C12"]),
 "C09a": ("C09", "east/west footprint rotation uses (max, min) instead of swapping", "wide prototypes (splitter, boiler, heat exchanger) facing east or west", "C09 quick missed at first (only pumps rotated); after widening rotated_non_square -> exit 1 (13 violations)", ["C09"]),
 "C10a": ("C10", "CSE key of arithmetic nodes drops the output type", "two arithmetic sub-expressions with equal operator/operands and different projected output types, optimisation on", "C10 quick exit 1 (24), C01 quick exit 1 (20)", ["C10", "C01"]),
 "C11a": ("C11", "AST-level fold of / drops the sign of a negative divisor", "compile-time division with a negative divisor and non-zero quotient", "C11 quick exit 1 (13 violations; fold monitor suspects + const_to_input twin)", ["C11"]),
 "C12a": ("C12", "relay network id looked up by IR id instead of resolved signal name -> always 0", "two routed edges from different sources on one colour needing relays near each other", "C12 quick exit 1 (79: cross-talk ownership monitor), C08 quick exit 1 (37)", ["C12", "C08"]),
 "C13a": ("C13", "explicit-name collection ignores the member names of constant bundle literals", "constant bundle literal with virtual members from the head of the pool, names used nowhere else, plus an untyped value", "C13 quick missed at first; after adding bundle_literal_at_head_of_pool stratum -> exit 1 (24: allocation monitor)", ["C13"]),
 "C14a": ("C14", "duplicate check forgets signal types contributed by a nested bundle", "a type contributed first by a bundle-typed element and again later in the same literal", "C14 quick missed at first (only the flat duplicate); after adding 45 rule variants -> exit 1 (36 violations)", ["C14"]),
 "C15a": ("C15", "constant folding resolves names in caller scope before the callee's int parameter", "int parameter in an all-constant subexpression, caller has a compile-time int of the same name", "C15 quick missed at first; after adding int_parameter_named_like_caller_int / loop_iterator strata -> exit 1 (35)", ["C15"]),
 "C16a": ("C16", "closed-form iteration count uses floor instead of ceiling", "range loop whose step does not divide the range", "C16 quick exit 1 (71: loop monitor + unroll twin)", ["C16"]),
 "C17a": ("C17", "resolve_import_path returns absolute() instead of resolve()", "one file imported through two spellings, one containing ..", "C17 quick missed at first; after adding dotdot_diamond / dotdot_cycle graphs -> exit 1 (10)", ["C17"]),
 "C18a": ("C18", "bridging pass assumes every pole has the requested type's wire reach", "--power-poles big|substation with medium relay poles more than 9 tiles from other poles", "C18 quick exit 1 (2: poles form 2 electric networks)", ["C18"]),
 "C19a": ("C19", "locked colours of multi-merge sources assigned in set iteration order", "a source in several wire merges with a transitive conflict (balanced loader); differs between hash seeds", "C19 quick missed at first; after adding example programs + multi_merge_sources stratum -> exit 1 (5)", ["C19"]),
 "C20a": ("C20", "alias set drops the producer's own label", "a named result whose IR node is shared (CSE duplicate, reused sub-expression, alias of a named constant)", "C20 quick exit 1 (63), C10 quick exit 1 (23, strict names)", ["C20", "C10"]),
}
for sid,(prop,what,needs,ran,checks) in M.items():
    d='/verif/seeded/%s'%sid
    os.makedirs(d, exist_ok=True)
    conf={}
    try: conf=json.load(open(d+'/confirm.json'))
    except Exception: pass
    meta={"id":sid,"property":prop,"change":what,"needs_to_manifest":needs,
          "produced_by":"fresh sub-agent given only the property text and a scratch git worktree under /tmp",
          "confirmed_by_me":{"demo_exit_with_change":conf.get("demo_with_change",{}).get("exit"),"demo_exit_without_change":conf.get("demo_without_change",{}).get("exit"),
                             "repository_suite_with_change":(conf.get("suite_xdist",{}).get("last_line") or [None])[0], "suite_failures_confirmed_serially":conf.get("suite_failures_confirmed_serially")},
          "checks_run":"git -C /repo apply patch.diff; ./check <id> --tier quick --no-evidence; git -C /repo checkout -- . (tools/try_mutant.py)",
          "result":ran,"caught_by":checks}
    try:
        _o=json.load(open(d+'/meta.json'))
        for _k in ('base_commit','note'):
            if _k in _o: meta.setdefault(_k,_o[_k])
    except Exception: pass
    json.dump(meta, open(d+'/meta.json','w'), indent=1)
print(len(M))

M2 = {
 "C01b": ("C01", "emitter mirrors `c OP s` to `s OP' c` without swapping the per-operand wire-colour sets", "`(literal OP x) : value` with the value on x's signal type from another producer", "C01 quick missed at first; after adding cond_value_same_type_two_producers stratum -> exit 1 (16); C07 plan-completeness also fires once literal-left strata were added to its workload", ["C01", "C07"]),
 "C02b": ("C02", "guard hoisted above the bundle-filter branch of _inject_output_value_wire_color: copying filters lose their output network selection", "`(b CMP s) : b` with s a signal whose type is also a member of b and that member passes", "C02 quick exit 1 (14)", ["C02"]),
 "C03b": ("C03", "CSE re-points only data_signal of a memory write, not write_enable (same mechanism as C03a, found independently)", "two gated writes with structurally identical when= conditions", "C03 quick exit 1 (21), C10 exit 1 (8)", ["C03", "C10"]),
 "C04b": ("C04", "self-edges filtered out of _find_bidirectional_pairs, so the feedback wire goes to MST routing, which cannot emit it", "single-combinator arithmetic feedback with an arithmetic reader of the cell declared before the write", "C04 quick missed at first; after adding early readers -> exit 1 (5, stage wiring)", ["C04"]),
 "C05b": ("C05", "optimiser no longer re-points reset_signal of a non-inlined latch write", "non-inlined latch whose inline reset expression also occurs earlier (merged by CSE)", "C05 quick missed at first; after adding duplicated set/reset expressions -> exit 1 (11)", ["C05"]),
 "C06b": ("C06", "relay network id looked up by the IR id (always 0): relay poles shared between networks (same mechanism as C12a, found independently)", "two long same-colour connections routed near each other", "C06 quick exit 1 (25), C12 exit 1 (84)", ["C06", "C12"]),
 "C07b": ("C07", "same change as C01b (emitted network selection differs from the plan for mirrored literal-left deciders), found independently", "literal-left comparison lowered to a single-condition decider", "C07 quick missed at first (no literal-left comparisons in its workload); after adding C01's literal_left / same-typed strata -> exit 1 (plan completeness: first network selection); C01 exit 1 (16)", ["C07", "C01"]),
 "C08b": ("C08", "user-specified positions read as tile corners also after the layout turned them into centres", "a user-placed entity larger than 1x1 plus a relay or post-layout pole choosing one of its mis-tracked tiles", "C08 quick exit 1 (14 overlaps)", ["C08"]),
 "C09b": ("C09", "_trim_power_poles recognises poles by prototype type instead of the compiler's own flag: user-placed poles are trimmed", "--power-poles plus a user-placed electric pole with no entity inside its supply radius", "C09 quick missed at first; after adding user-placed pole prototypes -> exit 1 (23)", ["C09"]),
 "C10b": ("C10", "MST hop colours recorded with setdefault: a logical edge no longer overrides another source's hop colour", "optimisation on; a combinator reading one signal name from producers P and Q where Q consumes P, both with fan-out >= 2", "C10 quick missed at first, C01 exit 1 (19); after adding C01's same-typed / two-producer strata to C10 -> exit 1 (11)", ["C10", "C01"]),
}
for sid,(prop,what,needs,ran,checks) in M2.items():
    d='/verif/seeded/%s'%sid
    os.makedirs(d, exist_ok=True)
    conf={}
    try: conf=json.load(open(d+'/confirm.json'))
    except Exception: pass
    meta={"id":sid,"property":prop,"change":what,"needs_to_manifest":needs,
          "produced_by":"fresh sub-agent given only the property text (with the hint to pick a deeper stage and a narrow trigger) and a scratch git worktree under /tmp",
          "confirmed_by_me":{"demo_exit_with_change":conf.get("demo_with_change",{}).get("exit"),"demo_exit_without_change":conf.get("demo_without_change",{}).get("exit"),
                             "repository_suite_with_change":(conf.get("suite_xdist",{}).get("last_line") or [None])[0], "suite_failures_confirmed_serially":conf.get("suite_failures_confirmed_serially")},
          "checks_run":"git -C /repo apply patch.diff; ./check <id> --tier quick --no-evidence; git -C /repo checkout -- . (tools/try_mutant.py)",
          "result":ran,"caught_by":checks}
    try:
        _o=json.load(open(d+'/meta.json'))
        for _k in ('base_commit','note'):
            if _k in _o: meta.setdefault(_k,_o[_k])
    except Exception: pass
    json.dump(meta, open(d+'/meta.json','w'), indent=1)
print(len(M2))

M3 = {
 "C11b": ("C11", "IR-level fold merges the << and >> branches and masks the left operand: >> on a negative constant becomes a logical shift", "`>>` folded by the IR optimiser (constant behind a projection or passed as a Signal parameter) with a negative left operand and shift 1..31", "C11 quick missed at first (IR-level stratum had no >>, random signs); after enumerating all 11 operators x negative/positive x 4 shapes -> exit 1 (2)", ["C11"]),
 "C12b": ("C12", "relay network id keyed by source prototype instead of source entity", "two long same-colour connections from different sources of the same prototype routed near each other", "C12 quick exit 1 (55), C08 exit 1 (32)", ["C12", "C08"]),
 "C13b": ("C13", "CSE key treats all compiler placeholders as one output type: identical untyped computations are merged while references keep their own placeholder", "the same untyped computation twice, the later copy consumed by a latch set/reset/value, an untyped memory or an entity enable", "C13 quick missed at first (C05 exit 1 (11)); after adding duplicated_untyped_value strata -> C13 exit 1 (19)", ["C13", "C05"]),
 "C14b": ("C14", "`iterator_data.get('step') or 1`: a literal zero step silently becomes 1", "range loop with a literal step 0 (any spelling)", "C14 quick exit 1 (18)", ["C14"]),
 "C15b": ("C15", "constant pre-folder falls through from a Signal-bound parameter to the caller's names", "Signal parameter named like a caller-visible compile-time int, combined with a constant in the body", "C15 quick missed at first; after adding signal_parameter_named_like_caller_int -> exit 1 (9)", ["C15"]),
 "C16b": ("C16", "always-true guard dropped in the constant-condition fold: a constant-FALSE condition in front of a run-time value also passes the value", "`(i >= 2) : s` with a compile-time int (iterator, int variable) that makes the comparison false and a run-time s", "C16 quick missed at first (C10 exit 1 (2)); after adding iterator-condition bodies -> C16 exit 1 (19)", ["C16", "C10"]),
 "C17b": ("C17", "same change as C15b, found independently: library functions misbehave when the user has an int named like a library parameter", "user `int x / a / b / t / value` next to a call of a math-library function", "C17 quick missed at first (C15 exit 1 (9)); after adding user ints named like library parameters -> C17 exit 1 (4)", ["C17", "C15"]),
 "C18b": ("C18", "copper spanning tree uses the smallest wire reach of all poles for every pair", "--power-poles big|substation with a medium relay (or user pole) in the blueprint and two pole groups only joinable by a wire longer than 9 tiles", "C18 quick exit 1 (3: poles form 2-3 electric networks)", ["C18"]),
 "C19b": ("C19", "physical MST hops overwrite the recorded colour of a logical edge with the same (entity, entity, signal) key", "a consumer reading one signal name from two producers, the first feeding the second and having fan-out >= 2; depends on which hops the layout's spanning tree contains", "C19 quick missed at first (C10 exit 1 (1)); after adding same_name_two_producers_fanout -> C19 exit 1 (2 of 6 programs differ between schedules)", ["C19", "C10"]),
 "C20b": ("C20", "`return` instead of `continue` in _remap_named_refs: names declared after the first int variable are not re-pointed", "an int variable declared before a named result whose node the optimiser replaces (CSE duplicate or folded)", "C20 quick missed at first; after adding ints / duplicates / folded calls -> exit 1 (56)", ["C20"]),
}
for sid,(prop,what,needs,ran,checks) in M3.items():
    d='/verif/seeded/%s'%sid
    os.makedirs(d, exist_ok=True)
    conf={}
    try: conf=json.load(open(d+'/confirm.json'))
    except Exception: pass
    meta={"id":sid,"property":prop,"change":what,"needs_to_manifest":needs,
          "produced_by":"fresh sub-agent given only the property text (with the hint to pick a deeper stage and a narrow trigger) and a scratch git worktree under /tmp",
          "confirmed_by_me":{"demo_exit_with_change":conf.get("demo_with_change",{}).get("exit"),"demo_exit_without_change":conf.get("demo_without_change",{}).get("exit"),
                             "repository_suite_with_change":(conf.get("suite_xdist",{}).get("last_line") or [None])[0], "suite_failures_confirmed_serially":conf.get("suite_failures_confirmed_serially")},
          "checks_run":"git -C /repo apply patch.diff; ./check <id> --tier quick --no-evidence; git -C /repo checkout -- . (tools/try_mutant.py)",
          "result":ran,"caught_by":checks}
    try:
        _o=json.load(open(d+'/meta.json'))
        for _k in ('base_commit','note'):
            if _k in _o: meta.setdefault(_k,_o[_k])
    except Exception: pass
    json.dump(meta, open(d+'/meta.json','w'), indent=1)
print(len(M3))

M4 = {
 "C01c": ("C01", "CSE key of arithmetic nodes loses the output signal type (independently the same change as C10a)", "two arithmetic nodes with equal operator and operands but different output types: a projection folded into its producer next to the unprojected computation, or two `x + 0` projections of one value", "C01 quick exit 1 on first run (also C10, C13)", ["C01", "C10"]),
 "C02c": ("C02", "the member walk of _keep_scalar_apart_from_bundle stops at the first level for a source shared by two merges: a scalar that is a member of a nested bundle leaks into the each-operation", "`Bundle inner = {s, t}; Bundle b = {inner, u}; b OP s` (any(b) > s, (b > s) : b): the scalar is a member of a bundle nested in the operated bundle", "C02 quick missed at first; after adding nested-member scalar modes -> exit 1", ["C02"]),
 "C03c": ("C03", "a memory read whose cell has already been written is treated as a simple source: `m.read() + k` of the same type becomes a wire merge on the cell's own network", "a read of a written cell added to a same-typed constant or input (no projection in between)", "C03 quick missed at first; after adding reader kind `addsame` -> exit 1", ["C03"]),
 "C05c": ("C05", "_rewrite_other_consumers no longer re-points a latch write's value operand after CSE / constant propagation", "a latch whose latched value is a computed signal that the optimiser merges with an identical earlier computation", "C05 quick missed at first; after adding value kind computed_dup -> exit 1 (C10 too)", ["C05", "C10"]),
 "C06c": ("C06", "statement lowerer's _is_constant/_extract_constant accept IdentifierExpr and look the name up in the global symbol table: inside a function an int parameter named like a global int inlines the GLOBAL value into the entity condition", "`func alarm(Entity e, int limit) { e.enable = any(levels) < limit; }` with a top-level `int limit` of another value", "C06 quick missed at first (no function-configured entities); after adding function_configured_param_named_like_global -> exit 1 (9)", ["C06"]),
 "C08c": ("C08", "tile occupancy rebuilt after layout truncates instead of flooring: at negative coordinates entities of even size are marked one tile off", "user entities (2x2 / 1x2) at negative coordinates next to relay or power poles placed after the rebuild", "C08 quick exit 1 on first run", ["C08"]),
 "C10c": ("C10", "CSE key of a multi-row decider takes the AND/OR combinator from the first row only (always `or`): an AND chain and an OR chain over the same comparisons are merged", "the same comparisons combined once with && and once with || in one program, optimiser on", "C10 quick missed at first; after adding and/or chain variants to the CSE stratum -> exit 1", ["C10"]),
 "C12c": ("C12", "relay network id of wire-merge edges keyed by the merge's resolved signal name (`bundle`) instead of the source entity: two different merges share relay poles", "two programs that each wire a merge (bundle of several sources, or same-typed addition) straight to sinks more than 9 tiles away, with routes close to each other", "C12 quick missed at first; after adding far_merge / bundle-condition components and side-by-side placement -> exit 1 (2 cross-talk)", ["C12"]),
 "C16c": ("C16", "semantic peephole rewrites `i | \"type\"` with a loop iterator into a literal IN PLACE in the shared loop-body AST: every iteration sees the first value", "a loop body declaring `Signal v = i | \"signal-X\"` (iterator projected directly) with at least two iterations", "C16 quick missed at first; after adding body kind iterproj -> exit 1", ["C16"]),
 "C20c": ("C20", "_place_arithmetic skips combinators whose usage entry says should_materialize = False (value taken as a place() coordinate)", "a named computed signal used as a place() coordinate AND read by a later statement / left as an output", "at the c batch's base commit the demonstration fails with the change and passes without; widening C20 for it (forms coord, coordnamed) exposed two genuine defects of the unchanged tree in the same mechanism (fixed: 75f14f2, 07c94da); after those fixes the flag is no longer set on such nodes and the change is behaviour-preserving on HEAD (demo exits 0 with it applied), so there is nothing left to catch", []),
}
for sid,(prop,what,needs,ran,checks) in M4.items():
    d='/verif/seeded/%s'%sid
    os.makedirs(d, exist_ok=True)
    conf={}
    try: conf=json.load(open(d+'/confirm.json'))
    except Exception: pass
    base=None
    try: base=subprocess.check_output(["git","-C","/tmp/wt_%s"%sid,"rev-parse","--short","HEAD"],text=True,stderr=subprocess.DEVNULL).strip()
    except Exception: pass
    old={}
    try: old=json.load(open(d+'/meta.json'))
    except Exception: pass
    meta={"id":sid,"property":prop,"change":what,"needs_to_manifest":needs,"base_commit":base or old.get("base_commit"),
          "produced_by":"fresh sub-agent given only the property text (asked for a change in a stage the earlier batches had not touched) and a scratch git worktree under /tmp",
          "confirmed_by_me":{"demo_exit_with_change":conf.get("demo_with_change",{}).get("exit"),"demo_exit_without_change":conf.get("demo_without_change",{}).get("exit"),
                             "repository_suite_with_change":(conf.get("suite_xdist",{}).get("last_line") or [None])[0], "suite_failures_confirmed_serially":conf.get("suite_failures_confirmed_serially")},
          "checks_run":"git -C /repo apply patch.diff; ./check <id> --tier quick --no-evidence; git -C /repo checkout -- . (tools/try_mutant.py)",
          "result":ran,"caught_by":checks}
    if sid=="C20c": meta["manifests_on_head"]=False
    try:
        _o=json.load(open(d+'/meta.json'))
        for _k in ('base_commit','note'):
            if _k in _o: meta.setdefault(_k,_o[_k])
    except Exception: pass
    json.dump(meta, open(d+'/meta.json','w'), indent=1)
print(len(M4))

M5 = {
 "C04d": ("C04", "_optimize_to_arithmetic_feedback: the first of two blocks that re-point a folded memory's reads was deleted as a duplicate; only it cleared the old source list, so reads placed before the write keep the deleted hold gate as first source", "a memory folded into arithmetic feedback whose output lands on the green wire (a same-typed computed addend in a multi-combinator loop) or a bundle containing the read declared before the write", "C04 quick exit 1 on first run (1)", ["C04"]),
 "C07d": ("C07", "multi-row decider emitter reads the copy colour from `output_signal_wires` (a key nobody sets) instead of `output_value_wires`: the exported output has no `networks` entry", "an &&/|| chain folded into one multi-row decider used as the condition of `: v` with a Signal value", "C07 quick missed at first (the random draw of 40 programs contained no such decider); after making every run start with one program from each generator plus an emitter-path program -> exit 1 (2: plan completeness, output network selection)", ["C07"]),
 "C09d": ("C09", "_trim_power_poles recognises grid poles by prototype instead of the is_power_pole flag: a user-placed pole of the requested type with no consumer in its supply area is trimmed", "--power-poles T and a place()d pole of prototype T with no non-pole entity within its supply radius", "C09 quick exit 1 on first run (12)", ["C09"]),
 "C11d": ("C11", "_resolve_constant_symbol consults the caller's names (signal_refs) before the inlined function's parameters (same change as C15d / C17d, found independently)", "a compile-time int or loop iterator of the caller named like an int parameter that the body uses in a folded sub-expression", "C11 quick missed at first (C15 exit 1 (49)); after adding a caller int / iterator named like the parameter to function_argument -> C11 exit 1 (5)", ["C11", "C15"]),
 "C13d": ("C13", "CSE key normalises compiler-allocated output types (`__vN`) to one placeholder: identical untyped computations on item/fluid operands are merged although their results must be distinct signals", "optimiser on; two identical comparisons of item/fluid signals whose untyped results are both used as distinct signals (bundle members, entity conditions, latch set)", "C13 quick exit 1 on first run (19)", ["C13"]),
 "C14d": ("C14", "infer_binary_op_type marks the operand's own type object as a comparison result (missing copy): a plain signal that was compared earlier is accepted as the condition of `x : v`", "a named signal on a virtual / implicit channel, compared somewhere earlier, then used bare as an output-specifier condition", "C14 quick exit 1 on first run (2)", ["C14"]),
 "C15d": ("C15", "_resolve_constant_symbol consults the caller's names before the inlined function's parameters", "an int parameter named like a caller int / enclosing loop iterator of another value, used in a folded sub-expression of the body", "C15 quick exit 1 on first run (49)", ["C15"]),
 "C17d": ("C17", "the same lookup-order change as C15d, written as a de-duplicating loop", "a library call (set_bit, lerp, abs ...) next to a user int / iterator named like a library parameter", "C17 quick exit 1 on first run (5)", ["C17", "C15"]),
 "C18d": ("C18", "complete_power_grid joins pole groups when EITHER pole reaches (max of the two wire reaches) while placement and emitter require both", "--power-poles small|substation|big, at least one medium wire relay, and a relay whose nearest grid pole lies between the two reaches", "C18 quick exit 1 on first run (6: poles form 2 electric networks)", ["C18"]),
 "C19d": ("C19", "_route_edge_directly records a real edge's colour with setdefault: an earlier MST path-segment entry for the same (source, sink, name) key wins", "a typed constant read by q = a + k and p = a * q (one name from two producers, the first a constant combinator with fan-out) and a layout in which q-p is a segment of a's spanning tree", "C19 quick missed at first (C01 exit 1 (8)); after adding the constant-first-producer variant to same_name_two_producers_fanout -> C19 exit 1 (4 of 9 programs differ between schedules)", ["C19", "C01"]),
}
for sid,(prop,what,needs,ran,checks) in M5.items():
    d='/verif/seeded/%s'%sid
    os.makedirs(d, exist_ok=True)
    conf={}
    try: conf=json.load(open(d+'/confirm.json'))
    except Exception: pass
    base=None
    try: base=subprocess.check_output(["git","-C","/tmp/wt_%s"%sid,"rev-parse","--short","HEAD"],text=True,stderr=subprocess.DEVNULL).strip()
    except Exception: pass
    old={}
    try: old=json.load(open(d+'/meta.json'))
    except Exception: pass
    meta={"id":sid,"property":prop,"change":what,"needs_to_manifest":needs,"base_commit":base or old.get("base_commit"),
          "produced_by":"fresh sub-agent given only the property text (asked for an interaction of two features or stages, away from the obvious spot) and a scratch git worktree under /tmp",
          "confirmed_by_me":{"demo_exit_with_change":conf.get("demo_with_change",{}).get("exit"),"demo_exit_without_change":conf.get("demo_without_change",{}).get("exit"),
                             "repository_suite_with_change":(conf.get("suite_xdist",{}).get("last_line") or [None])[0], "suite_failures_confirmed_serially":conf.get("suite_failures_confirmed_serially")},
          "checks_run":"FVERIF_REPO=<worktree with the change> ./check <id> --tier quick --no-evidence (same as applying the patch to /repo; /repo was busy with the thorough sweep)",
          "result":ran,"caught_by":checks}
    json.dump(meta, open(d+'/meta.json','w'), indent=1)
print(len(M5))

M6 = {
 "C02e": ("C02", "CSE key of a count-copying decider no longer says WHICH value is copied: two `cond : value` gates with the same condition and output type (every gated bundle is `signal-everything`) are merged", "optimiser on; two bundles gated by one and the same condition (written twice or named once): `r1 = (s > 2) : b; r2 = (s > 2) : c`", "C02 and C10 quick missed at first (every gate had its own condition); after adding gating_shared_condition (also drawn by C10) -> C02 exit 1 (18)", ["C02", "C10"]),
 "C03e": ("C03", "_determine_locked_wire_colors stops after the first signal-W producer: every other write-enable falls back to red and joins the cell's data input with its feedback network", "two or more conditionally written cells with different when= expressions (or one next to an unconditional plain write); which cell survives depends on the string order of the IR node ids", "C03 quick exit 1 on first run (25)", ["C03"]),
 "C05e": ("C05", "_try_extract_inline_conditions looks the compared name up in the caller's names before the inlined function's parameters", "a latch written inside a function whose set/reset compare a Signal parameter with integers, and a different caller Signal of the same name declared before the call", "C05 and C15 quick missed at first (no latch inside a function); after adding latch_in_function_param_named_like_caller_signal to C15 -> C15 exit 1 (6); C05's own generator still builds top-level latches only", ["C15"]),
 "C06e": ("C06", "_find_or_create_relay_near reuses any relay pole near the ideal position without asking whether it already carries another network on that colour", "two long (> 9 tiles) same-colour connections from different sources whose relay chains run 1-2 tiles apart", "C06 quick exit 1 on first run (36); C12 exit 1 (75)", ["C06", "C12"]),
 "C07e": ("C07", "the emitter de-duplicates planned wires by (source, sink, colour) without the connector side: `A.output -> B.input` and `A.input -> B.input` collide and the second is dropped", "y = f(x); z = g(x, y) with different signal names and a layout whose spanning tree reaches B through A's input", "C07 quick exit 1 on first run (2: decoded CLI output is not the planned circuit)", ["C07"]),
 "C10e": ("C10", "CSE orders the operand keys of commutative operators and counts `^` (the IR's power operator) among them (independently the same idea as C01a)", "optimiser on; x ** y and y ** x on one output type", "C10 quick exit 1 on first run (1, the commuted-operands enumeration)", ["C10", "C01"]),
 "C11e": ("C11", "_resolve_constant_symbol asks the analyzer's (global-scope) symbol table before the lowering-time name table: a body-local int or iterator named like a top-level int literal folds with the global's value", "a top-level `int N = <literal>` and a loop iterator / body-local int / function-local int of the same name used in a folded sub-expression", "C11 and C16 quick missed at first; after adding a body-local int named like a top-level int to loop_iterator_arithmetic -> C11 exit 1 (8)", ["C11", "C16"]),
 "C12e": ("C12", "route_signal looks an existing relay up in a dict keyed by tile with an entity id: the relay never records the network that now uses it, so a second network of the same colour is routed through it", "long wires, an already existing free relay path (relays of the other colour, or a --power-poles grid) and a second same-colour network along the same corridor", "C12 quick exit 1 on first run (22 cross-talk); C08 exit 1 (24)", ["C12", "C08"]),
 "C16e": ("C16", "the same lookup-order change as C11e, found independently", "`int x = 6;` anywhere at top level and `for x in ...` whose body folds `x * 10`", "C16 quick missed at first; after adding a top-level int with the iterator's name (before or after the loop) -> C16 exit 1 (43)", ["C16", "C11"]),
 "C19e": ("C19", "_apply_mst_to_source_fanout assigns the forward key of a spanning-tree segment outright: it overwrites the colour recorded for a real logical edge of the other colour group", "p = a + k; b = p * k2; c = p * b (one name from two producers, the first with fan-out) and a layout whose tree is P-B, B-C", "C19 quick exit 1 on first run (1 of 40 programs differs between schedules); C01 exit 1 (1)", ["C19", "C01"]),
}
for sid,(prop,what,needs,ran,checks) in M6.items():
    d='/verif/seeded/%s'%sid
    os.makedirs(d, exist_ok=True)
    conf={}
    try: conf=json.load(open(d+'/confirm.json'))
    except Exception: pass
    base=None
    try: base=subprocess.check_output(["git","-C","/tmp/wt_%s"%sid,"rev-parse","--short","HEAD"],text=True,stderr=subprocess.DEVNULL).strip()
    except Exception: pass
    old={}
    try: old=json.load(open(d+'/meta.json'))
    except Exception: pass
    meta={"id":sid,"property":prop,"change":what,"needs_to_manifest":needs,"base_commit":base or old.get("base_commit"),
          "produced_by":"fresh sub-agent given only the property text (asked for a dependence on something incidental: program size, statement order, names, rarely used constructs) and a scratch git worktree under /tmp",
          "confirmed_by_me":{"demo_exit_with_change":conf.get("demo_with_change",{}).get("exit"),"demo_exit_without_change":conf.get("demo_without_change",{}).get("exit"),
                             "repository_suite_with_change":(conf.get("suite_xdist",{}).get("last_line") or [None])[0], "suite_failures_confirmed_serially":conf.get("suite_failures_confirmed_serially")},
          "checks_run":"FVERIF_REPO=<worktree with the change> ./check <id> --tier quick --no-evidence (same as applying the patch to /repo; /repo was busy with the thorough sweep)",
          "result":ran,"caught_by":checks}
    json.dump(meta, open(d+'/meta.json','w'), indent=1)
print(len(M6))

M7 = {
 "C01f": ("C01", "_apply_mst_to_source_fanout records a logical edge's colour with setdefault: an earlier spanning-tree hop of another producer under the same (source, sink, name) key wins (the logical-edge twin of C19d)", "a declared input a with fan-out, y = a * 2 on the same signal with fan-out, and one combinator taking both (y - a, y > a) placed next to y", "C01 quick exit 1 on first run (21); C19 exit 1 (2)", ["C01", "C19"]),
 "C04f": ("C04", "the same de-duplication in _optimize_to_arithmetic_feedback as C04d, found independently", "a multi-combinator arithmetic feedback loop whose feedback edge lands on green (a same-typed addend computed before the loop)", "C04 quick exit 1 on first run (1)", ["C04"]),
 "C08f": ("C08", "_compute_network_ids stores the relay network id under the edge's logical signal id instead of its resolved name: every lookup misses and returns 0, relays treat all connections as one network", "two connections longer than 9 tiles from different sources on one colour whose routes run close together", "C08 quick exit 1 on first run (40: emitted wiring joins networks the plan keeps apart); C12 exit 1 (82)", ["C08", "C12"]),
 "C09f": ("C09", "_trim_power_poles recognises poles by prototype class (any electric pole) instead of the is_power_pole flag (a wider variant of C09d)", "--power-poles T and a place()d pole of ANY pole prototype with no consumer within T's supply radius", "C09 quick exit 1 on first run (23)", ["C09"]),
 "C13f": ("C13", "the explicitly used names removed from the allocation pool are filtered with startswith('signal-'): arrows and shapes (27 virtual signals) stay in the pool although the program uses them", "an explicit arrow / shape signal and at least ~45 untyped values (the pool reaches the arrows at the 45th allocation, the shapes at the 53rd)", "C13 quick missed at first (30/45-value programs, explicit far names mostly `signal-*`); after adding explicit arrow/shape inputs and 60-value programs to the quick tier -> exit 1 (9: compiler-chosen signal is used explicitly by the program)", ["C13"]),
 "C14f": ("C14", "_infer_bundle_literal_type takes the first nested bundle's signal_types SET as is (missing copy): the later elements widen the type of the nested variable itself", "`Bundle wide = { b, (\"signal-C\", 3) };` followed by the selection of that absent member from b", "C14 quick missed at first; after adding the select_after_wider_literal variants -> exit 1 (18)", ["C14"]),
 "C15f": ("C15", "after an inlined call the callee's new entities are recognised by entity id instead of by name: a callee local `Entity lamp` re-binds the caller's `lamp`", "a callee-local entity named like a caller entity that the caller uses again after the call", "C15 quick exit 1 on first run (26)", ["C15"]),
 "C17f": ("C17", "lower_function_call_inline binds each parameter as soon as its argument is lowered: while a later argument is lowered, earlier parameters already shadow caller variables of the same name", "a call whose later argument mentions a caller variable named like an earlier parameter of the callee (`min(b, a)`, `max(c, min(a, b))`)", "C17 and C15 quick missed at first; after adding arguments_named_like_parameters (C15) and parameter-named inputs for library calls (C17) -> C15 exit 1 (9), C17 exit 1 (4)", ["C17", "C15"]),
 "C18f": ("C18", "PowerPlanner._add_pole derives the new pole id from the lexicographic max() of the existing ids: `power_pole_9` > `power_pole_10`, ids repeat and placements overwrite each other", "--power-poles (always with big) on a program large enough for pole ids to reach two digits while the completion pass still adds poles", "C18 quick exit 1 on first run (22: electric entity outside every supply area, no compiler warning for it)", ["C18"]),
 "C20f": ("C20", "_build_debug_info no longer overrides the label with the declared name: a constant declaration bound to a second name is labelled with the alias only", "`Signal rate = (\"signal-A\", 5); Signal limit = rate;`", "C20 quick exit 1 on first run (51)", ["C20"]),
}
for sid,(prop,what,needs,ran,checks) in M7.items():
    d='/verif/seeded/%s'%sid
    os.makedirs(d, exist_ok=True)
    conf={}
    try: conf=json.load(open(d+'/confirm.json'))
    except Exception: pass
    base=None
    try: base=subprocess.check_output(["git","-C","/tmp/wt_%s"%sid,"rev-parse","--short","HEAD"],text=True,stderr=subprocess.DEVNULL).strip()
    except Exception: pass
    old={}
    try: old=json.load(open(d+'/meta.json'))
    except Exception: pass
    meta={"id":sid,"property":prop,"change":what,"needs_to_manifest":needs,"base_commit":base or old.get("base_commit"),
          "produced_by":"fresh sub-agent given only the property text (asked for a dependence on something incidental: program size, statement order, names across scopes, rarely used constructs) and a scratch git worktree under /tmp",
          "confirmed_by_me":{"demo_exit_with_change":conf.get("demo_with_change",{}).get("exit"),"demo_exit_without_change":conf.get("demo_without_change",{}).get("exit"),
                             "repository_suite_with_change":(conf.get("suite_xdist",{}).get("last_line") or [None])[0], "suite_failures_confirmed_serially":conf.get("suite_failures_confirmed_serially")},
          "checks_run":"FVERIF_REPO=<worktree with the change> ./check <id> --tier quick --no-evidence (same as applying the patch to /repo)",
          "result":ran,"caught_by":checks}
    json.dump(meta, open(d+'/meta.json','w'), indent=1)
print(len(M7))
