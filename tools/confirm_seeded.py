#!/usr/bin/env python3
"""Confirm a seeded change inside its scratch worktree (never in /repo).

usage: tools/confirm_seeded.py <seeded-id> <worktree> [--no-suite]

Expects <worktree>/_mutant/{patch.diff,demo.py} with the change applied in the worktree.
 1. demo with the change      -> must exit non-zero
 2. demo with the change undone (git apply -R) -> must exit 0; change re-applied
 3. the repository's test suite with the change (xdist, failures re-run serially)
Writes seeded/<id>/confirm.json and copies patch.diff / demo.py / NOTES.md into seeded/<id>/ ."""
import json
import os
import re
import shutil
import subprocess
import sys
import time

VERIF = os.path.dirname(os.path.dirname(os.path.abspath(__file__)))
PY = "/venv/bin/python"
DESELECT = ["--deselect", "tests/test_cli.py::TestCliCoverageGaps::test_read_file_error_unreadable_file",
            "--deselect", "tests/test_cli.py::TestCliCoverageGaps::test_write_file_error_unwritable_directory"]


def sh(cmd, cwd, timeout=3600):
    env = dict(os.environ)
    env.pop("PYTHONPATH", None)
    return subprocess.run(cmd, cwd=cwd, capture_output=True, text=True, timeout=timeout, env=env)


def main():
    sid, wt = sys.argv[1], sys.argv[2]
    suite = "--no-suite" not in sys.argv
    out = {"id": sid, "worktree": wt, "time": time.strftime("%Y-%m-%d %H:%M:%S")}
    mdir = os.path.join(wt, "_mutant")
    patch = os.path.join(mdir, "patch.diff")
    # state: is the change applied?
    chk = sh(["git", "apply", "-R", "--check", patch], wt)
    if chk.returncode != 0:
        r = sh(["git", "apply", patch], wt)
        if r.returncode != 0:
            print("cannot apply patch:", r.stderr)
            return 2
    r1 = sh([PY, "_mutant/demo.py"], wt, 1200)
    out["demo_with_change"] = {"exit": r1.returncode, "tail": (r1.stdout + r1.stderr)[-600:]}
    sh(["git", "apply", "-R", patch], wt)
    r0 = sh([PY, "_mutant/demo.py"], wt, 1200)
    out["demo_without_change"] = {"exit": r0.returncode, "tail": (r0.stdout + r0.stderr)[-300:]}
    sh(["git", "apply", patch], wt)
    out["demo_confirms"] = r1.returncode != 0 and r0.returncode == 0
    if suite:
        t0 = time.time()
        r = sh([PY, "-m", "pytest", "-q", "-p", "no:cacheprovider", "-n", "8", "--timeout=900"] + DESELECT, wt, 7200)
        tail = (r.stdout + r.stderr).strip().splitlines()[-1:]
        failed = re.findall(r"^FAILED (\S+)", r.stdout, re.M)
        out["suite_xdist"] = {"exit": r.returncode, "last_line": tail, "failed": failed[:120], "wall": round(time.time() - t0)}
        still = []
        for f in failed[:120]:
            rr = sh([PY, "-m", "pytest", "-q", "-p", "no:cacheprovider", f], wt, 1800)
            if rr.returncode != 0:
                still.append(f)
        out["suite_failures_confirmed_serially"] = still
        out["suite_passes"] = (r.returncode == 0) or (bool(failed) and not still and len(failed) <= 120)
    dst = os.path.join(VERIF, "seeded", sid)
    os.makedirs(dst, exist_ok=True)
    for f in ("patch.diff", "demo.py", "NOTES.md"):
        if os.path.exists(os.path.join(mdir, f)):
            shutil.copy(os.path.join(mdir, f), os.path.join(dst, f))
    with open(os.path.join(dst, "confirm.json"), "w") as f:
        json.dump(out, f, indent=1)
    print(json.dumps({k: v for k, v in out.items() if k not in ("demo_with_change", "demo_without_change")}, indent=1))
    print("demo with change:", out["demo_with_change"]["exit"], "| without:", out["demo_without_change"]["exit"])
    return 0


if __name__ == "__main__":
    sys.exit(main())
