#!/usr/bin/env python3
"""Re-run every stored seeded change against the checks that are recorded as catching it.

usage: tools/seeded_regress.py [<id> ...] [--jobs N] [--seed N]

Each change is applied in a scratch worktree of /repo's HEAD under /tmp (never in /repo itself; the checks are
pointed at it with FVERIF_REPO), the checks named in seeded/<id>/meta.json `caught_by` are run on the quick tier
with --no-evidence, and the worktree is removed. Writes seeded/<id>/last_run.json and prints one line per change.
Exit 0 iff every change that still applies is caught by at least one of its checks."""
import json
import os
import re
import subprocess
import sys
import time
from concurrent.futures import ThreadPoolExecutor

REPO = "/repo"
VERIF = os.path.dirname(os.path.dirname(os.path.abspath(__file__)))


def sh(*a, **k):
    return subprocess.run(a, capture_output=True, text=True, **k)


def one(sid, seed):
    d = os.path.join(VERIF, "seeded", sid)
    meta = json.load(open(os.path.join(d, "meta.json")))
    checks = meta.get("caught_by") or [meta["property"]]
    if meta.get("manifests_on_head") is False:
        return {"id": sid, "not_expected": True, "checks": {}}
    wt = "/tmp/wt_regress_%s" % sid
    sh("git", "-C", REPO, "worktree", "remove", "--force", wt)
    r = sh("git", "-C", REPO, "worktree", "add", "--detach", wt, "HEAD")
    head = sh("git", "-C", REPO, "rev-parse", "--short", "HEAD").stdout.strip()
    out = {"id": sid, "repo_head": head, "time": time.strftime("%Y-%m-%d %H:%M:%S"), "checks": {}}
    try:
        if r.returncode:
            out["error"] = "worktree: " + r.stderr[-200:]
            return out
        a = sh("git", "-C", wt, "apply", os.path.join(d, "patch.diff"))
        if a.returncode:
            out["applies"] = False
            out["error"] = a.stderr[-300:]
            return out
        out["applies"] = True
        for c in checks:
            env = dict(os.environ, FVERIF_REPO=wt, VERIF_SEED=str(seed), PYTHONHASHSEED="0")
            t0 = time.time()
            p = sh(os.path.join(VERIF, "check"), c, "--tier", "quick", "--no-evidence", "--workers", "4", cwd=VERIF, env=env)
            lines = (p.stdout + p.stderr).splitlines()
            viol = [ln for ln in lines if ln.startswith("VIOLATION")]
            whys = [ln.strip() for ln in lines if ln.strip().startswith("why:")]
            summ = [ln for ln in lines if re.match(r"C\d\d (quick|thorough) seed", ln)]
            out["checks"][c] = {"exit": p.returncode, "violations": len(viol), "first_why": [w[:300] for w in whys[:2]],
                                "summary": summ[-1:], "wall": round(time.time() - t0, 1)}
        out["caught"] = any(v["exit"] == 1 and v["violations"] > 0 for v in out["checks"].values())
    finally:
        sh("git", "-C", REPO, "worktree", "remove", "--force", wt)
        sh("git", "-C", REPO, "worktree", "prune")
    json.dump(out, open(os.path.join(d, "last_run.json"), "w"), indent=1)
    return out


def main():
    args = sys.argv[1:]
    jobs, seed = 2, 0
    for opt in ("--jobs", "--seed"):
        if opt in args:
            i = args.index(opt)
            v = int(args[i + 1])
            del args[i:i + 2]
            if opt == "--jobs":
                jobs = v
            else:
                seed = v
    ids = args or sorted(x for x in os.listdir(os.path.join(VERIF, "seeded"))
                         if os.path.exists(os.path.join(VERIF, "seeded", x, "meta.json")))
    bad = 0
    with ThreadPoolExecutor(jobs) as ex:
        for out in ex.map(lambda s: one(s, seed), ids):
            if out.get("applies") is False:
                print("%s does-not-apply %s" % (out["id"], out.get("error", "").strip().splitlines()[-1:]))
                continue
            if out.get("not_expected"):
                print("%s NOT-EXPECTED (the change no longer breaks the property on this tree, see meta.json)" % out["id"], flush=True)
                continue
            res = " ".join("%s:exit%d/%d" % (c, v["exit"], v["violations"]) for c, v in out["checks"].items())
            print("%s %s %s" % (out["id"], "CAUGHT" if out.get("caught") else "MISSED", res), flush=True)
            if not out.get("caught"):
                bad += 1
    return 1 if bad else 0


if __name__ == "__main__":
    sys.exit(main())
