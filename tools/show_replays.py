#!/usr/bin/env python3
import json,glob,collections,sys
prop=sys.argv[1]
c=collections.Counter(); seen=collections.Counter()
maxper=int(sys.argv[2]) if len(sys.argv)>2 else 1
for p in sorted(glob.glob('/verif/evidence/replays/%s-*.json'%prop)):
    r=json.load(open(p))
    w=r['result'].get('witness') or {}
    key=(r['case'].get('stratum'), w.get('stage'), w.get('oracle'))
    c[key]+=1
    if seen[key]>=maxper: continue
    seen[key]+=1
    print(p, key)
    print(w.get('source') or w.get('source_a'))
    if w.get('source_b') and w.get('source_b')!=w.get('source_a'): print('--- B:\n'+w['source_b'])
    print(w.get('inputs'), w.get('chests'), json.dumps(w.get('mismatches') or w.get('differences') or w.get('problems') or [])[:900], str(w.get('detail'))[:300])
    if w.get('history'): print('history', str(w['history'])[:300], 'step', w.get('step'))
    print('---')
for k,v in sorted(c.items(), key=str): print(k,v)
