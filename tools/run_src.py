#!/usr/bin/env python3
"""Compile a Facto source with the real compiler and print what every labelled anchor reads after settling.

usage: tools/run_src.py '<source>' [--no-opt] [--ticks N] [--log]"""
import sys
sys.path.insert(0, '/verif'); sys.path.insert(0, '/verif/.deps')
from fverif import driver, fsim


def main():
    args = sys.argv[1:]
    opt = "--no-opt" not in args
    src = [a for a in args if not a.startswith("--")][0]
    driver.setup()
    b = driver.compile_source(src, optimize=opt, schedule=("first", 3))
    if not b.ok:
        print("REJECTED:", b.error)
        return 1
    view = driver.View(b.bp)
    for which in ("phys", "log"):
        sim = fsim.Sim(b.bp) if which == "phys" else fsim.LogicalSim(b.bp, b.cap)
        st = sim.settle(200)
        out = driver.read_outputs(sim, view)
        print(which, "settled" if st is not None else "NOT settled", {k: v.get("signals", v) for k, v in sorted(out.items())})
    for d in b.diags:
        if "WARN" in str(d).upper() or "ERROR" in str(d).upper():
            print("diag:", str(d)[:200])
    if "--dump" in args:
        for e in b.bp["blueprint"]["entities"]:
            print(e["entity_number"], e["name"], str(e.get("control_behavior"))[:260], e.get("player_description", "")[:50])
        print(b.bp["blueprint"].get("wires"))
    return 0


if __name__ == "__main__":
    sys.exit(main())
