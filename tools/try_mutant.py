#!/usr/bin/env python3
"""Apply a seeded change to /repo, run the named checks against it, undo it.

usage: tools/try_mutant.py <patch.diff> <Cxx> [<Cyy> ...] [--tier quick|thorough] [--seed N] [--limit N]

Never commits anything; /repo is restored with `git apply -R` + `git checkout -- .` even when a check crashes.
Evidence files are not rewritten (--no-evidence)."""
import json
import os
import re
import subprocess
import sys
import time

REPO = "/repo"
VERIF = os.path.dirname(os.path.dirname(os.path.abspath(__file__)))


def sh(*a, **k):
    return subprocess.run(a, capture_output=True, text=True, **k)


def main():
    args = sys.argv[1:]
    tier, seed, limit = "quick", None, None
    for opt in ("--tier", "--seed", "--limit"):
        if opt in args:
            i = args.index(opt)
            v = args[i + 1]
            del args[i:i + 2]
            if opt == "--tier":
                tier = v
            elif opt == "--seed":
                seed = v
            else:
                limit = v
    patch, checks = os.path.abspath(args[0]), args[1:]
    st = sh("git", "-C", REPO, "status", "--porcelain").stdout.strip()
    if st:
        print("refusing: /repo is not clean:\n" + st)
        return 2
    r = sh("git", "-C", REPO, "apply", patch)
    if r.returncode:
        print("patch does not apply:", r.stderr)
        return 2
    out = {}
    try:
        for c in checks:
            env = dict(os.environ)
            if seed is not None:
                env["VERIF_SEED"] = seed
            cmd = [os.path.join(VERIF, "check"), c, "--tier", tier, "--no-evidence"]
            if limit:
                cmd += ["--limit", limit]
            t0 = time.time()
            p = sh(*cmd, cwd=VERIF, env=env)
            lines = (p.stdout + p.stderr).splitlines()
            viol = [ln for ln in lines if ln.startswith("VIOLATION")]
            whys = [ln.strip() for ln in lines if ln.strip().startswith("why:")]
            summ = [ln for ln in lines if re.match(r"C\d\d (quick|thorough) seed", ln)]
            out[c] = {"exit": p.returncode, "violations": len(viol), "first_why": whys[:3], "summary": summ[-1:] , "wall": round(time.time() - t0, 1)}
            print(c, "exit", p.returncode, "violations", len(viol), "wall %.0fs" % (time.time() - t0))
            for w in whys[:3]:
                print("    ", w[:260])
            if summ:
                print("    ", summ[-1][:200])
    finally:
        sh("git", "-C", REPO, "apply", "-R", patch)
        sh("git", "-C", REPO, "checkout", "--", ".")
        st = sh("git", "-C", REPO, "status", "--porcelain").stdout.strip()
        if st:
            print("WARNING: /repo not clean after undo:\n" + st)
    print("@@RESULT " + json.dumps(out))
    return 0


if __name__ == "__main__":
    sys.exit(main())
