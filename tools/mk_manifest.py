#!/usr/bin/env python3
"""Regenerate MANIFEST.json from the table below (keeps it valid at all times)."""
import json
import os

HERE = os.path.dirname(os.path.dirname(os.path.abspath(__file__)))

TRUST = ("Trusted base: the circuit model fverif/fsim.py (a reading of Factorio 2.0 combinator semantics, "
         "self-tested by ./check --setup), the reference semantics fverif/lang.py written from LANGUAGE_SPEC.md, "
         "draftsman's shipped game data for geometry, and the harness-attached plan/solver monitors "
         "(fverif/driver.py). Held means: held on the executions listed in the evidence file, nothing more.")

CHECKS = {
    "C01": dict(
        category="exploration",
        technique="runtime monitoring: reference-model oracle over executions of the emitted blueprint (circuit simulator), physical vs directed-delivery execution to attribute failures",
        text="Thousands of generated stateless programs are compiled by the real compiler and the emitted blueprint is executed tick by tick in a Factorio 2.0 circuit model for boundary-biased int32 valuations; every named result is compared with a reference semantics. Exploration is the right level: the property quantifies over all programs x inputs and is only observable by executing the artefact.",
        design_ref="DESIGN.md 3 (C01), 2.8.1",
    ),
    "C02": dict(
        category="exploration",
        technique="runtime monitoring: reference-model oracle comparing the whole signal map on each bundle's output anchor of the executed blueprint",
        text="Generated bundle programs (literals, each-arithmetic, filters, gating, any/all, selection, chains) are compiled by the real compiler and executed in the circuit model; the complete signal map observed at every named bundle's anchor must equal the reference map for every valuation, so leaked or altered members are visible. Exploration over programs x inputs is the right level: wildcard semantics only exist at execution time.",
        design_ref="DESIGN.md 3 (C02), 2.8.1",
    ),
    "C03": dict(
        category="exploration",
        technique="runtime monitoring: offline checker of recorded held-step histories against a reference state machine (latch/hold), on the executed blueprint",
        text="Generated programs with gated memory cells are compiled by the real compiler; the blueprint is driven through input histories (one input per step, held until settled) in the circuit model and every reader is compared after every step with a reference state machine. Hold behaviour across enable edges exists only over histories, so exploration over programs x histories is the right level.",
        design_ref="DESIGN.md 3 (C03)",
    ),
    "C04": dict(
        category="exploration",
        technique="runtime monitoring: per-tick trace checker (exists L: trace[t+L] = f(trace[t])) on the executed blueprint, optimised vs unoptimised twin",
        text="Generated self-referential write programs are compiled with and without optimisation and run from the all-zero state in the circuit model; the recorded per-tick trace at every identity reader must satisfy trace[t+L] = f(trace[t]) for one latency L shared by all readers, and the two builds must agree up to a shift. The statement is about every tick of a run, hence a trace monitor.",
        design_ref="DESIGN.md 3 (C04)",
    ),
    "C05": dict(
        category="exploration",
        technique="runtime monitoring: latch automaton checked over recorded held-step histories, plus a reading-independent priority twin (arguments swapped)",
        text="Generated latch programs (both argument orders, signals / inlinable / non-inlinable comparisons, constant and signal values) are compiled and driven through boundary-walking histories in the circuit model; every reader is compared with the reference automaton after each held step, and the same history on the argument-swapped twin must differ exactly in the both-active region. Priority and hold only exist over input sequences.",
        design_ref="DESIGN.md 3 (C05)",
    ),
    "C06": dict(
        category="exploration",
        technique="runtime monitoring: entity circuit conditions evaluated by the circuit model on the networks wired to the entity, against the reference truth value of the assigned expression",
        text="Generated programs place circuit-controllable entities (incl. pumps, power switches, chests read through .output) with every kind of enable expression; the blueprint is executed for valuations of inputs and chest contents and the condition of the entity found at the user-given tile must be true exactly when the reference value is positive, with the named signal's value on the wire equal to the reference value.",
        design_ref="DESIGN.md 3 (C06)",
    ),
    "C07": dict(
        category="exploration",
        technique="runtime monitoring: the real CLI entry points run as subprocesses over an option matrix, their decoded output compared (canonical circuit form) with the plan monitor's in-process build and executed in the circuit model; plan-placement vs exported-JSON completeness monitor",
        text="Small generated programs are compiled through python -m dsl_compiler, compile.py and cli.main over {file,-i} x {string,--json} x {stdout,-o} x {--no-optimize,--power-poles,--name} x cwd; the emitted text must decode, be the only thing on stdout, describe the same canonical circuit as the in-process build and as its --json twin, and execute to the reference outputs; in-process, every placement and wire of the LayoutPlan must appear in the exported JSON with its full configuration.",
        design_ref="DESIGN.md 3 (C07)",
    ),
    "C10": dict(
        category="exploration",
        technique="runtime monitoring: differential execution (optimised vs --no-optimize build of the same source) of the emitted blueprints, plus the reference-model oracle on the optimised build",
        text="The same generated source is compiled with and without optimisation by the real compiler; both blueprints are executed for the same valuations / held-step histories and every named output and entity condition must be identical, the optimised build also matching the reference semantics. Strata target the optimiser (CSE key variants, folded constants in every consumer kind, fan-out).",
        design_ref="DESIGN.md 3 (C10)",
    ),
    "C11": dict(
        category="exploration",
        technique="runtime monitoring: reference-value oracle on the executed blueprint + const_to_input differential twin + harness-attached monitor on the compiler's folding functions",
        text="Generated constant expressions over the int32 boundary set are placed in every folding position (literal value, int variable, operand, condition, output constant, function argument, loop iterator arithmetic, constant behind a projection, place coordinate); the executed blueprint must show the int32 reference value, the constant-replaced-by-input twin must agree, and a monitor records every ConstantFolder / constant-propagation fold call and compares it with the int32 model.",
        design_ref="DESIGN.md 3 (C11)",
    ),
    "C16": dict(
        category="exploration",
        technique="runtime monitoring: differential execution of the loop program and its manually unrolled twin, reference oracle, and a monitor on ForStmt.get_iteration_values",
        text="Loop programs over a complete box of (start, stop, step) triples plus random bodies (iterator in coordinates/arithmetic/literals, local names, memories, calls, nesting <= 3, list iterators, bounds through int variables) are compiled next to their unrolled twin; both blueprints are executed and must agree on outputs, entity conditions and the user-entity multiset; each expansion is checked against the documented sequence by a harness-attached monitor.",
        design_ref="DESIGN.md 3 (C16)",
    ),
    "C15": dict(
        category="exploration",
        technique="runtime monitoring: differential execution of the program with calls and its manually inlined twin, reference oracle, and a monitor on the inliner's state save/restore and memory ids",
        text="Programs with functions (all parameter kinds, coercions, shadowing locals, local memories and places, nested calls, calls in loops, entity-returning and void functions) are compiled next to their inlined twin; both blueprints are executed and must agree on outputs, entity conditions and the user-entity multiset, the call build also matching the reference semantics; a harness-attached monitor checks that the caller's parameter/signal/entity maps are restored after every call and that each executed Memory declaration gets a fresh id.",
        design_ref="DESIGN.md 3 (C15)",
    ),
    "C17": dict(
        category="exploration",
        technique="runtime monitoring: pasted-twin differential execution over generated import graphs and working directories, a monitor on preprocess_imports/resolve_import_path, and a contract oracle for every lib/math.facto function on the executed blueprint",
        text="Generated import graphs (chains, diamonds, cycles, self-import, cycle through the main file, sub-directories) are compiled from three working directories (one with decoy files) next to the pasted twin and executed; a monitor records resolutions and how often each file is inlined; every math-library function is compiled and executed for thousands of boundary-biased argument tuples against its documented value.",
        design_ref="DESIGN.md 3 (C17)",
    ),
    "C13": dict(
        category="exploration",
        technique="runtime monitoring: harness-attached monitor on the implicit-signal allocator (freshness invariants) plus differential execution against the rename_implicit twin",
        text="Programs mixing untyped and explicit values (incl. explicit use of the pool head and 30-140 untyped values) are compiled by the real compiler; a monitor on _allocate_factorio_virtual_signal checks that every compiler-chosen name is no wildcard, not signal-W, not used explicitly by the program and not handed out twice; the twin with every untyped value projected onto a fresh explicit signal is executed for the same valuations and must agree.",
        design_ref="DESIGN.md 3 (C13)",
    ),
    "C20": dict(
        category="exploration",
        technique="runtime monitoring: structural oracle over the emitted blueprint's descriptions and anchors plus reference-value oracle on each anchor network of the executed blueprint",
        text="Generated programs with mixes of consumed/unconsumed names, aliases, and outputs of every producer kind are compiled with optimisation on and off; for every unreferenced top-level name exactly one empty labelled anchor must exist whose network carries the reference value of the result's own signal(s), producers must carry name and declaration line, declared constants must be labelled with name and value, consumed names must not get anchors.",
        design_ref="DESIGN.md 3 (C20)",
    ),
    "C08": dict(
        category="fault_enumeration",
        technique="runtime monitoring with fault injection: injected CP-SAT solver schedules (first solution / time budgets / timed-out strategies / default under load) x pole options x retries; geometric and wiring invariants checked on every emitted blueprint, partition of emitted wires vs the planner's recorded edges, RelayNode invariant from the plan monitor",
        text="Which placement CP-SAT returns depends on budget, threads and load; the check enumerates those outcomes by injecting solver schedules into the real layout engine and checks every emitted blueprint against game-data geometry (collision boxes, connectors, colours, wire reach) and against the planner's own edge list (relays join nothing). Fault enumeration is the right level: validity must hold for every outcome of a nondeterministic search.",
        design_ref="DESIGN.md 3 (C08), 2.5",
    ),
    "C09": dict(
        category="exploration",
        technique="runtime monitoring: multiset of user-role entities (role recorded by the plan monitor) in the emitted blueprint vs the reference multiset from interpreting the program description, under pole options and injected solver schedules",
        text="Programs placing 1-1000+ entities through literals, int variables, iterators, arithmetic, functions and nested loops are compiled under pole options and solver schedules (incl. the >500-entity decomposition path); the multiset of (prototype, top-left tile, static properties) of user entities must equal the reference multiset.",
        design_ref="DESIGN.md 3 (C09)",
    ),
    "C18": dict(
        category="exploration",
        technique="runtime monitoring: supply-area coverage, copper connectivity and reach from game data on every --power-poles build; canonical logical circuit and user-entity multiset compared with the pole-free build of the same source",
        text="Programs are compiled with each pole type and without poles under solver schedules; coverage of every electric consumer, one copper grid, copper reach, unchanged logical circuit (canonical form) and unchanged user entities are checked per build; without the option only relay poles may appear. All clauses are live; the one listed finding is an uncovered consumer that the compiler itself announces ('No free tile for a big power pole near (x, y)').",
        design_ref="DESIGN.md 3 (C18)",
    ),
    "C19": dict(
        category="fault_enumeration",
        technique="runtime monitoring with fault injection: the same source compiled across hash seeds (fresh interpreters), working directories, injected solver schedules / time budgets and in-process sequences; canonical logical circuits compared by colour refinement",
        text="Sources of run-to-run variation are enumerated explicitly (PYTHONHASHSEED, process, cwd, solver schedule and budget, earlier compilations in the same process); every run's canonical circuit (configured entities + connector partition, poles contracted) must be identical.",
        design_ref="DESIGN.md 3 (C19), 2.5",
    ),
    "C12": dict(
        category="exploration",
        technique="runtime monitoring: differential execution of each component alone vs inside the interleaved joint program, plus a network-level ownership monitor on the executed joint blueprint (no reader of one program sees an emitter of the other)",
        text="Pairs/triples of generated programs with disjoint names but overlapping signal types are compiled alone and interleaved (three orders) under relay-heavy schedules and pole options; every component's outputs and entity conditions in the joint blueprint must equal those of the component alone for every valuation, and the model checks on the joint blueprint that no entity owned by one program reads a network carrying a non-zero signal emitted by the other.",
        design_ref="DESIGN.md 3 (C12)",
    ),
    "C14": dict(
        category="exploration",
        technique="runtime monitoring: mutation of accepted host programs by embedding a violating construct per documented rule at every kind of position; outcome of the real compile entry points (in-process and CLI subprocesses) observed, with a monitor on ProgramDiagnostics.error",
        text="Each documented static rule is embedded as a violating construct into randomly generated accepted host programs at first/middle/last position, inside called functions, inside executed loop bodies and loops inside functions; the host must be accepted, the mutated program must not compile, the diagnostic must name the problem, and for a sample the real CLI entry points must exit non-zero with nothing that decodes as a blueprint on stdout or in the -o file.",
        design_ref="DESIGN.md 3 (C14)",
    ),
}

PENDING = {}


def main():
    props = [json.loads(l) for l in open(os.path.join(HERE, "properties.jsonl"))]
    checks = []
    na = []
    for p in props:
        pid = p["id"]
        if pid in CHECKS:
            c = CHECKS[pid]
            checks.append({
                "property_id": pid,
                "quick_cmd": "./check %s --tier quick" % pid,
                "thorough_cmd": "./check %s --tier thorough" % pid,
                "evidence_file": "evidence/%s.json" % pid,
                "replay_cmd_template": "./check %s --replay {path}" % pid,
                "engine": "fverif",
                "level_claimed": {"category": c["category"], "text": c["text"], "design_ref": c["design_ref"]},
                "level_note": c.get("note", TRUST),
                "technique": c["technique"],
            })
        else:
            na.append({"property_id": pid, "reason": PENDING.get(pid, "check not built yet in this session (runtime monitoring applies; see DESIGN.md 3)")})
    m = {
        "version": 1,
        "setup_cmd": "./check --setup",
        "hooks": {
            "guard": "FACTO_VERIF",
            "enable": "no source hooks: the harness imports /repo's working tree and wraps the real functions at run time (FACTO_VERIF=1 is set by ./check for the harness only)",
            "baseline_off_cmd": "cd /repo && /venv/bin/python -m pytest -ra -q -p no:cacheprovider --timeout=900 --continue-on-collection-errors",
            "source_commits": [],
            "add_only": True,
        },
        "engines": [{"name": "fverif", "path": "fverif/", "serves_properties": sorted(CHECKS),
                     "kind_free_text": "runtime monitoring: real compiler driven by generated workloads and injected solver schedules; emitted blueprints executed in a circuit-network model; monitors attached from the harness"}],
        "checks": checks,
        "notes": "Fix commits in /repo (unguarded, 'fix:'): see known_findings.json 'fixed' list and DESIGN.md 8.2; listed findings DESIGN.md 8.3; seeded changes /verif/seeded and DESIGN.md 8.4.",
        "not_applicable": na,
    }
    with open(os.path.join(HERE, "MANIFEST.json"), "w") as f:
        json.dump(m, f, indent=1)
    print("claimed:", sorted(CHECKS), "unclaimed:", [x["property_id"] for x in na])


if __name__ == "__main__":
    main()
